(* EncoderFacts.v — first proved facts about the encoder side (C03-C06, C09, C10). *)
From Coq Require Import Ascii String List Arith ZArith NArith Bool Lia.
Import ListNotations.
From Selfies Require Import Base Generated Atoms Grammar Decoder PySet Matching Smiles Kekulize Encoder
  BaseFacts IndexSpec IndexCode Reader RoundTrip.

(* ---------- C06: the strict check is exactly "some atom exceeds its capacity" ---------- *)
Definition over_capacity (capf : capfun) (m : emol) (k : nat) (a : atom) : Prop :=
  exists cap c2, bonding_capacity_c capf a = Ok cap /\ mg_get_bond_count2 m k = Ok c2 /\ (2 * cap < c2)%Z.

Lemma bond_constraint_errors_spec : forall capf m atoms idx b,
  bond_constraint_errors capf m atoms idx = Ok b ->
  (b = true <-> exists k a at_, nth_error atoms k = Some (a, at_) /\ over_capacity capf m (idx + k) a).
Proof.
  intros capf m. induction atoms as [|[a at_] r IH]; intros idx b H; cbn [bond_constraint_errors] in H.
  - inversion H; subst. split; [discriminate|]. intros (k & a & at_ & Hk & _). destruct k; discriminate.
  - destruct (bonding_capacity_c capf a) as [cap|] eqn:Ec; cbn [bind] in H; [|discriminate].
    destruct (mg_get_bond_count2 m idx) as [c2|] eqn:Eb; cbn [bind] in H; [|discriminate].
    destruct (2 * cap <? c2)%Z eqn:El.
    + destruct (atom_to_smiles a true); cbn [bind] in H; [|discriminate].
      destruct (bond_constraint_errors capf m r (S idx)); cbn [bind] in H; [|discriminate].
      inversion H; subst. split; [|reflexivity]. intros _. exists 0%nat, a, at_. split; [reflexivity|].
      rewrite Nat.add_0_r. exists cap, c2. apply Z.ltb_lt in El. auto.
    + specialize (IH (S idx) b H). rewrite IH. apply Z.ltb_ge in El. split.
      * intros (k & a' & at' & Hk & Ho). exists (S k), a', at'. split; [exact Hk|].
        replace (idx + S k)%nat with (S idx + k)%nat by lia. exact Ho.
      * intros (k & a' & at' & Hk & Ho). destruct k as [|k].
        -- cbn in Hk. inversion Hk; subst a' at'. rewrite Nat.add_0_r in Ho.
           destruct Ho as (cap' & c2' & H1 & H2 & H3). rewrite Ec in H1. rewrite Eb in H2.
           inversion H1; inversion H2; subst. lia.
        -- exists k, a', at'. split; [exact Hk|]. replace (S idx + k)%nat with (idx + S k)%nat by lia. exact Ho.
Qed.

Theorem strict_check_iff_over_capacity : forall capf m,
  (exists b, bond_constraint_errors capf m (m_atoms m) 0 = Ok b) ->
  (check_bond_constraints capf m = Err EncoderError <->
   exists k a at_, nth_error (m_atoms m) k = Some (a, at_) /\ over_capacity capf m k a).
Proof.
  intros capf m [b Hb]. unfold check_bond_constraints. rewrite Hb. cbn [bind].
  pose proof (bond_constraint_errors_spec _ _ _ _ _ Hb) as S. cbn [Nat.add] in S.
  destruct b; split; intro H; try discriminate; try reflexivity.
  - apply S. reflexivity.
  - apply S in H. discriminate.
Qed.

(* ---------- C09: the two documented failure routes end in EncoderError ---------- *)
Theorem parse_error_becomes_encoder_error : forall capf s strict attribute,
  smiles_to_mol s attribute = Err SMILESParserError -> encoder_c capf s strict attribute = Err EncoderError.
Proof. intros. unfold encoder_c. now rewrite H. Qed.

Theorem kekulize_failure_becomes_encoder_error : forall capf s strict attribute m0,
  smiles_to_mol s attribute = Ok m0 -> kekulize m0 = Ok None -> encoder_c capf s strict attribute = Err EncoderError.
Proof. intros. unfold encoder_c, encode_mol. now rewrite H, H0. Qed.

(* the inputs the property names: repaired in /repo, and the model agrees *)
Lemma named_inputs_rejected :
  encoder default_constraints (lit "C11") true false = Err EncoderError /\
  encoder default_constraints (lit "F:F") true false = Err EncoderError /\
  (match encoder default_constraints (lit "C1CC1") true false with
   | Ok (x, _) => str_eqb x (lit "[C][C][C][Ring1][Ring1]") | Err _ => false end) = true.
Proof. repeat split; vm_compute; reflexivity. Qed.

(* ---------- C05: the matching routine is NOT sound (no blossom contraction) ---------- *)
Definition blossom_witness : list (list nat) :=
  [[1; 2]; [3; 2; 0]; [1; 6; 0]; [1; 7]; [6; 7]; [7; 6]; [5; 4; 2]; [4; 5; 3]]%nat.

Lemma matching_sound_refuted :
  exists m, find_perfect_matching blossom_witness = Ok (Some m) /\
            is_perfect_matching blossom_witness m = false /\
            graph_has_pm blossom_witness = true.
Proof. eexists. split; [vm_compute; reflexivity|]. split; vm_compute; reflexivity. Qed.

(* the checker run on implementation outputs means what it says *)
Lemma is_perfect_matching_sound : forall g m, is_perfect_matching g m = true ->
  length m = length g /\
  forall i, (i < length g)%nat ->
    exists j, nth_error m i = Some (Some j) /\ j <> i /\ In j (nth i g []) /\ nth j m None = Some i.
Proof.
  intros g m H. unfold is_perfect_matching in H. apply andb_true_iff in H as [Hl Hf].
  apply Nat.eqb_eq in Hl. split; [exact Hl|]. intros i Hi. rewrite forallb_forall in Hf.
  destruct (nth_error m i) as [mi|] eqn:E; [|apply nth_error_None in E; lia].
  assert (Hin : In (0 + i, mi)%nat (combine (seq 0 (length m)) m)).
  { clear -E. revert i E. generalize 0%nat as k. induction m as [|x m IH]; intros k i E; [destruct i; discriminate|].
    cbn [length seq combine]. destruct i as [|i]; cbn in E.
    - inversion E; subst. left. f_equal. lia.
    - right. specialize (IH (S k) i E). replace (k + S i)%nat with (S k + i)%nat by lia. exact IH. }
  cbn [Nat.add] in Hin. specialize (Hf _ Hin). cbn beta iota in Hf.
  destruct mi as [j|]; [|discriminate].
  apply andb_true_iff in Hf as [Hf H3]. apply andb_true_iff in Hf as [H1 H2].
  exists j. split; [reflexivity|]. split; [apply negb_true_iff, Nat.eqb_neq in H1; congruence|].
  split.
  - apply existsb_exists in H2 as (x & Hx & Ex). apply Nat.eqb_eq in Ex. subst x. exact Hx.
  - destruct (nth j m None) as [k|]; [|discriminate]. apply Nat.eqb_eq in H3. now subst.
Qed.

(* ---------- C04: parity bookkeeping ---------- *)
(* swapping two adjacent distinct entries changes the inversion count by exactly one:
   the basis of "odd permutation <=> invert" *)
Lemma count_less_app x a b : Encoder.count_less x (a ++ b) = (Encoder.count_less x a + Encoder.count_less x b)%nat.
Proof. induction a as [|y a IH]; cbn; [reflexivity|]. rewrite IH. lia. Qed.

Lemma inversions_swap_count : forall l1 a b l2, (b < a)%nat ->
  Encoder.inversions (l1 ++ a :: b :: l2) = S (Encoder.inversions (l1 ++ b :: a :: l2)).
Proof.
  induction l1 as [|x l1 IH]; intros a b l2 Hab.
  - cbn [app Encoder.inversions Encoder.count_less].
    destruct (Nat.ltb_spec b a); destruct (Nat.ltb_spec a b); lia.
  - cbn [app Encoder.inversions]. rewrite !count_less_app. cbn [Encoder.count_less].
    rewrite (IH a b l2 Hab). lia.
Qed.

Lemma inversions_swap_adjacent : forall l1 a b l2, a <> b ->
  Nat.odd (Encoder.inversions (l1 ++ a :: b :: l2)) = negb (Nat.odd (Encoder.inversions (l1 ++ b :: a :: l2))).
Proof.
  intros l1 a b l2 Hab. destruct (Nat.lt_gt_cases a b) as [_ H]. 
  destruct (Nat.lt_total a b) as [L|[L|L]]; [|contradiction|].
  - rewrite (inversions_swap_count l1 b a l2 L), Nat.odd_succ, <- Nat.negb_odd. now rewrite negb_involutive.
  - rewrite (inversions_swap_count l1 a b l2 L), Nat.odd_succ, <- Nat.negb_odd. reflexivity.
Qed.

(* the two chemistry tables of constants.py are the periodic-table values (as sets of entries) *)
Lemma valence_tables_documented :
  (forall e, assoc e valence_electrons = assoc e doc_valence_electrons) /\
  (forall e, assoc e aromatic_valences = assoc e doc_aromatic_valences).
Proof.
  assert (E1 : valence_electrons = doc_valence_electrons) by (vm_compute; reflexivity).
  assert (E2 : aromatic_valences = doc_aromatic_valences) by (vm_compute; reflexivity).
  split; intro e; [now rewrite E1|now rewrite E2].
Qed.
