(* DocGrammar.v — the SELFIES derivation rules as documented
   (docs/source/derivation.rst, with the v2 symbol names of the README),
   written independently of decoder.py: a token array with a position pointer,
   the abstract molecule of Reader.v (neighbour slots, no running counters),
   free valence recomputed from the slots.  Used as the reference for C02.

   Readings fixed here where the document is informal (see DESIGN.md C02):
   - a branch instance "takes the next Q+1 symbols" counted as symbols consumed,
     including those consumed by nested constructs (a nested construct may run
     past its parent's budget);
   - a ring symbol lowers the state by the ring order (pinned by the test
     suite; the .rst still shows the v1 rule);
   - an atom that cannot bond (mu = 0) in a state i > 0 is not derived and
     ends the derivation instance. *)
From Coq Require Import Ascii String List Arith ZArith NArith Bool.
Import ListNotations.
From Selfies Require Import Base Generated IndexSpec Reader.

Local Open Scope Z_scope.

(* ---------- symbol classes ---------- *)
Definition bond_prefixes : list (string * Z) := [(""%string, 1); ("="%string, 2); ("#"%string, 3)].

Definition branch_symbols : list (str * Z) :=
  flat_map (fun L => map (fun '(b, o) => (lit ("[" ++ b ++ "Branch" ++ L ++ "]"), o)) bond_prefixes)
           ["1"; "2"; "3"]%string.

Definition ring_len (s : str) : nat :=      (* the digit before the closing bracket *)
  match nth_error s (length s - 2) with Some c => N.to_nat (c - 48) | None => 0%nat end.

Definition stereo_pairs : list (string * option N * option N) :=
  [("-/", None, Some 47%N); ("-\", None, Some 92%N);
   ("/-", Some 47%N, None); ("//", Some 47%N, Some 47%N); ("/\", Some 47%N, Some 92%N);
   ("\-", Some 92%N, None); ("\/", Some 92%N, Some 47%N); ("\\", Some 92%N, Some 92%N)]%string.

(* symbol -> (order, left mark, right mark) *)
Definition ring_symbols : list (str * (Z * option N * option N)) :=
  flat_map (fun L =>
    map (fun '(b, o) => (lit ("[" ++ b ++ "Ring" ++ L ++ "]"), (o, None, None))) bond_prefixes ++
    map (fun '(b, l, r) => (lit ("[" ++ b ++ "Ring" ++ L ++ "]"), (1, l, r))) stereo_pairs)
    ["1"; "2"; "3"]%string.

Definition epsilon_symbol : str := lit "[epsilon]".
Definition nop_symbol : str := lit "[nop]".

(* [<B><A>] : B in {'', '=', '#', '/', '\'} ; A = iso? Elem chir? (H digit)? ([+-] [1-9][0-9]* )? *)
Definition is_nz_digit (c : N) : bool := ((49 <=? c) && (c <=? 57))%N.

Definition strip_brackets (sym : str) : option str :=
  match sym with
  | c0 :: s0 =>
      if N.eqb c0 91 then
        match rev s0 with
        | c1 :: rbody => if N.eqb c1 93 then Some (rev rbody) else None
        | [] => None
        end
      else None
  | [] => None
  end.

Definition read_prefix (body : str) : Z * option N * str :=
  match body with
  | c :: r =>
      if N.eqb c 61 then (2, None, r)
      else if N.eqb c 35 then (3, None, r)
      else if N.eqb c 47 then (1, Some c, r)
      else if N.eqb c 92 then (1, Some c, r)
      else (1, None, body)
  | [] => (1, None, body)
  end.

(* "H" digit, exactly; None = malformed *)
Definition read_h (s : str) : option (option N * str) :=
  match s with
  | c :: r =>
      if N.eqb c 72 then
        match r with
        | d :: r' => if is_digit d then Some (Some (dval d), r') else None
        | [] => None
        end
      else Some (None, s)
  | [] => Some (None, s)
  end.

(* nothing, or sign followed by a positive decimal without leading zero, then end *)
Definition read_charge (s : str) : option Z :=
  match s with
  | [] => Some 0
  | sg :: r =>
      if (N.eqb sg 43 || N.eqb sg 45) then
        match r with
        | d1 :: r' => if is_nz_digit d1 && forallb is_digit r'
                      then Some (Z.of_N (number (d1 :: r')) * (if N.eqb sg 43 then 1 else -1))
                      else None
        | [] => None
        end
      else None
  end.

Definition parse_atom_symbol (sym : str) : option (Z * option N * satom) :=
  match strip_brackets sym with
  | None => None
  | Some body =>
    let '(beta, mark, s1) := read_prefix body in
    if mem_str s1 organic then
      Some (beta, mark, {| sa_elem := s1; sa_arom := false; sa_iso := None; sa_chi := None;
                           sa_h := None; sa_charge := 0 |})
    else
    let '(iso, s2) := take_while is_digit s1 in
    match s2 with
    | e1 :: s3 =>
      if negb (is_up e1) then None else
      let '(elem, s4) := match s3 with
                         | e2 :: r => if is_low e2 then ([e1; e2], r) else ([e1], s3)
                         | [] => ([e1], s3) end in
      if negb (mem_str elem elements) then None else
      let '(chi, s5) := read_chi s4 in
      match read_h s5 with
      | None => None
      | Some (h, s6) =>
        match read_charge s6 with
        | None => None
        | Some c =>
            Some (beta, mark,
                  {| sa_elem := elem; sa_arom := false;
                     sa_iso := match iso with [] => None | _ => Some (number iso) end;
                     sa_chi := chi; sa_h := Some (match h with Some x => x | None => 0%N end);
                     sa_charge := c |})
        end
      end
    | [] => None
    end
  end.

(* alpha: capacity under the table minus explicit hydrogens; negative = not a symbol of the grammar *)
Definition alpha (T : list (str * Z)) (a : satom) : option Z :=
  match capacity T a with
  | None => None
  | Some c => let v := c - Z.of_N (match sa_h a with Some h => h | None => 0%N end) in
              if v <? 0 then None else Some v
  end.

(* is the symbol a symbol of the grammar under table T? *)
Definition symbol_in_grammar (T : list (str * Z)) (sym : str) : bool :=
  match assoc sym branch_symbols with
  | Some _ => true
  | None =>
    match assoc sym ring_symbols with
    | Some _ => true
    | None =>
      str_eqb sym epsilon_symbol || str_eqb sym nop_symbol ||
      match parse_atom_symbol sym with
      | Some (_, _, a) => match alpha T a with Some _ => true | None => false end
      | None => false
      end
    end
  end.

(* ---------- derivation ---------- *)
Record ringq := { q_l : nat; q_r : nat; q_order : Z; q_lm : option N; q_rm : option N }.

Record dstate := {
  dg_atoms : list (satom * Z);           (* atom with its alpha *)
  dg_nbrs : list (list nslot);
  dg_parent : list bool;                 (* has a preceding atom (first nslot) *)
  dg_rings : list ringq
}.

Definition dg_empty := {| dg_atoms := []; dg_nbrs := []; dg_parent := []; dg_rings := [] |}.

(* index symbols: the next L tokens from position pos (missing ones count 0) *)
Definition read_Q (toks : list str) (pos L : nat) : N * nat (* value, symbols really read *) :=
  let avail := Nat.min L (length toks - pos) in
  let syms := map (fun k => nth_error toks (pos + k)) (seq 0 L) in
  (doc_value (map doc_digit syms), avail).

Section Derive.
Variable T : list (str * Z).
Variable toks : list str.        (* one fragment, [nop] already removed *)

(* one derivation instance.
   pos: next token; left: symbols this instance may still consume (None = unbounded);
   state: i of X_i; cur: the current atom of this instance.
   Result: position after the instance (its whole budget consumed as far as tokens exist). *)
Definition skip (pos : nat) (left : option nat) : nat :=
  match left with
  | None => length toks
  | Some k => Nat.min (length toks) (pos + k)
  end.

Definition dec (left : option nat) (k : nat) : option nat :=
  match left with None => None | Some n => Some (n - k)%nat end.

Fixpoint dd (fuel : nat) (pos : nat) (left : option nat) (state : Z) (cur : option nat) (d : dstate)
  : res (nat * dstate) :=
  match fuel with O => Err OutOfFuel | S f =>
  match left with Some O => Ok (pos, d) | _ =>
  match nth_error toks pos with
  | None => Ok (pos, d)
  | Some sym =>
    let pos1 := S pos in
    let left1 := dec left 1 in
    match assoc sym branch_symbols with
    | Some M =>
        if state <=? 1 then dd f pos1 left1 state cur d
        else
          let n := Z.min (state - 1) M in
          let j := state - n in
          let L := ring_len sym in
          let '(Q, got) := read_Q toks pos1 L in
          let pos2 := (pos1 + got)%nat in
          do (pos3, d2) <- dd f pos2 (Some (S (N.to_nat Q))) n cur d;
          dd f pos3 (dec left1 (got + (pos3 - pos2))) j cur d2
    | None =>
    match assoc sym ring_symbols with
    | Some (o, lm, rm) =>
        if state =? 0 then dd f pos1 left1 state cur d
        else
          let L := ring_len sym in
          let '(Q, got) := read_Q toks pos1 L in
          let pos2 := (pos1 + got)%nat in
          let left2 := dec left1 got in
          match cur with
          | None => Err AssertionError       (* a state > 0 always has a current atom *)
          | Some m =>
            let target := (m - S (N.to_nat Q))%nat in      (* max(0, m - (Q+1)) *)
            let order := Z.min o state in
            let d2 := {| dg_atoms := dg_atoms d; dg_nbrs := dg_nbrs d; dg_parent := dg_parent d;
                         dg_rings := dg_rings d ++ [{| q_l := target; q_r := m; q_order := order; q_lm := lm; q_rm := rm |}] |} in
            if state - order =? 0 then Ok (skip pos2 left2, d2)
            else dd f pos2 left2 (state - order) cur d2
          end
    | None =>
    if str_eqb sym epsilon_symbol then
      if state =? 0 then dd f pos1 left1 0 cur d else Ok (skip pos1 left1, d)
    else
    match parse_atom_symbol sym with
    | None => Err DecoderError
    | Some (beta, mark, a) =>
      match alpha T a with
      | None => Err DecoderError
      | Some al =>
        let mu := Z.min (Z.min beta al) state in
        let k := length (dg_atoms d) in
        if mu =? 0 then
          if state =? 0 then
            (* X_0: the atom starts a new (sub)molecule *)
            let d2 := {| dg_atoms := dg_atoms d ++ [(a, al)]; dg_nbrs := dg_nbrs d ++ [[]];
                         dg_parent := dg_parent d ++ [false]; dg_rings := dg_rings d |} in
            if al =? 0 then Ok (skip pos1 left1, d2) else dd f pos1 left1 al (Some k) d2
          else Ok (skip pos1 left1, d)        (* alpha = 0: nothing can be derived *)
        else
          match cur with
          | None => Err AssertionError
          | Some p =>
            let sp := {| sl_to := k; sl_order2 := 2 * mu; sl_mark := mark; sl_ring := false |} in
            let sk := {| sl_to := p; sl_order2 := 2 * mu; sl_mark := mark; sl_ring := false |} in
            let d2 := {| dg_atoms := dg_atoms d ++ [(a, al)];
                         dg_nbrs := upd (dg_nbrs d) p (fun l => l ++ [sp]) ++ [[sk]];
                         dg_parent := dg_parent d ++ [true]; dg_rings := dg_rings d |} in
            if al - mu =? 0 then Ok (skip pos1 left1, d2) else dd f pos1 left1 (al - mu) (Some k) d2
          end
      end
    end
    end end
  end end end.
End Derive.

(* ---------- second pass: ring formation ---------- *)
Definition used (row : list nslot) : Z := fold_left (fun acc s => acc + sl_order2 s) row 0 / 2.

Definition set_order2 (row : list nslot) (partner : nat) (o2 : Z) : list nslot :=
  map (fun s => if Nat.eqb (sl_to s) partner
                then {| sl_to := sl_to s; sl_order2 := o2;
                        sl_mark := if o2 =? 2 then sl_mark s else None;   (* marks are written on single bonds only *)
                        sl_ring := sl_ring s |}
                else s) row.

Definition ring_count (row : list nslot) : nat := length (filter sl_ring row).

Definition form_one (d : dstate) (q : ringq) : dstate :=
  let l := q_l q in let r := q_r q in
  if Nat.eqb l r then d else
  match nth_error (dg_atoms d) l, nth_error (dg_atoms d) r with
  | Some (_, al), Some (_, ar) =>
    let rowl := nth l (dg_nbrs d) [] in
    let rowr := nth r (dg_nbrs d) [] in
    let lfree := al - used rowl in
    let rfree := ar - used rowr in
    if (lfree <=? 0) || (rfree <=? 0) then d else
    let order := Z.min (Z.min (q_order q) lfree) rfree in
    match find (fun s => Nat.eqb (sl_to s) r) rowl with
    | Some s =>
        let new := Z.min (order + sl_order2 s / 2) 3 in
        {| dg_atoms := dg_atoms d;
           dg_nbrs := upd (upd (dg_nbrs d) l (fun row => set_order2 row r (2 * new))) r (fun row => set_order2 row l (2 * new));
           dg_parent := dg_parent d; dg_rings := dg_rings d |}
    | None =>
        let posl := ((if nth l (dg_parent d) false then 1 else 0) + ring_count rowl)%nat in
        let posr := ((if nth r (dg_parent d) false then 1 else 0) + ring_count rowr)%nat in
        let sl_ := {| sl_to := r; sl_order2 := 2 * order; sl_mark := q_lm q; sl_ring := true |} in
        let sr_ := {| sl_to := l; sl_order2 := 2 * order; sl_mark := q_rm q; sl_ring := true |} in
        {| dg_atoms := dg_atoms d;
           dg_nbrs := upd (upd (dg_nbrs d) l (fun row => insert_at row posl sl_)) r (fun row => insert_at row posr sr_);
           dg_parent := dg_parent d; dg_rings := dg_rings d |}
    end
  | _, _ => d
  end.

(* ---------- whole strings ---------- *)
(* split the token list (symbols and "." items) into fragments, dropping [nop] *)
Fixpoint fragments (ts : list str) (cur : list str) : list (list str) :=
  match ts with
  | [] => [rev cur]
  | t :: r => if str_eqb t [46%N] then rev cur :: fragments r []
              else if str_eqb t nop_symbol then fragments r cur
              else fragments r (t :: cur)
  end.

Fixpoint derive_all (T : list (str * Z)) (frs : list (list str)) (d : dstate) : res dstate :=
  match frs with
  | [] => Ok d
  | fr :: rest =>
      do (_, d2) <- dd T fr (S (length fr)) 0 None 0 None d;
      derive_all T rest d2
  end.

Definition grammar_eval (T : list (str * Z)) (ts : list str) : res smol :=
  do d <- derive_all T (fragments ts []) dg_empty;
  let d' := fold_left form_one (dg_rings d) d in
  Ok {| sm_atoms := map fst (dg_atoms d'); sm_nbrs := dg_nbrs d' |}.

(* equality of abstract molecules (what C02 compares) *)
Definition opt_eqb {A} (f : A -> A -> bool) (a b : option A) : bool :=
  match a, b with Some x, Some y => f x y | None, None => true | _, _ => false end.
Definition satom_eqb (a b : satom) : bool :=
  str_eqb (sa_elem a) (sa_elem b) && Bool.eqb (sa_arom a) (sa_arom b) && opt_eqb N.eqb (sa_iso a) (sa_iso b)
  && opt_eqb str_eqb (sa_chi a) (sa_chi b) && opt_eqb N.eqb (sa_h a) (sa_h b) && Z.eqb (sa_charge a) (sa_charge b).
Definition slot_eqb (a b : nslot) : bool :=
  Nat.eqb (sl_to a) (sl_to b) && Z.eqb (sl_order2 a) (sl_order2 b) && opt_eqb N.eqb (sl_mark a) (sl_mark b)
  && Bool.eqb (sl_ring a) (sl_ring b).
Fixpoint list_eqb {A} (f : A -> A -> bool) (a b : list A) : bool :=
  match a, b with
  | [], [] => true
  | x :: a', y :: b' => f x y && list_eqb f a' b'
  | _, _ => false
  end.
Definition smol_eqb (a b : smol) : bool :=
  list_eqb satom_eqb (sm_atoms a) (sm_atoms b) && list_eqb (list_eqb slot_eqb) (sm_nbrs a) (sm_nbrs b).
