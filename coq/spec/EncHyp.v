(* EncHyp.v — C10: the hypotheses of the decodability theorem (proofs/EncDecodes.v) as computations, so that the
   harness can evaluate them on every input it runs.  Definitions only. *)
From Coq Require Import String List ZArith NArith Bool.
Import ListNotations.
From Selfies Require Import Base Generated Atoms Decoder Smiles.
Local Open Scope string_scope.
Local Open Scope Z_scope.

Definition atoms_of (m : emol) : list atom := map fst (m_atoms m).

(* explicit hydrogens of an atom *)
Definition hv (a : atom) : Z := match a_hcount a with None => 0 | Some h => Z.of_N h end.

(* the capacity the table gives the atom covers its explicit hydrogens *)
Definition cap_okb (T : table) (a : atom) : bool :=
  match get_bonding_capacity T (a_element a) (a_charge a) with Ok c => hv a <=? c | Err _ => false end.

(* strip the closing bracket and the digits before it: if what is left ends in Ring or Branch, the digits are 1, 2 or 3 *)
Definition suffix_smallb (t : str) : bool :=
  match rev t with
  | 93%N :: r =>
      let '(ds, rest) := span is_09 r in
      if prefix_of (rev (lit "Ring")) rest || prefix_of (rev (lit "Branch")) rest
      then mem_str (rev ds) [lit "1"; lit "2"; lit "3"] else true
  | _ => true
  end.

(* both, for an input SMILES and the SELFIES string returned for it *)
Definition enc_hyp (T : table) (smiles : str) (attribute : bool) (s : str) : bool * bool :=
  (match smiles_to_mol smiles attribute with Ok m0 => forallb (cap_okb T) (atoms_of m0) | Err _ => true end,
   forallb suffix_smallb (flat_map fst (tokenize_all s false))).
