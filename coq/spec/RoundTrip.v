(* RoundTrip.v — what C03, C04, C05, C06 say about a SMILES and the SMILES it
   comes back as, stated on the abstract molecules read by Reader.v.
   Boolean predicates (they are run on implementation outputs). *)
From Coq Require Import Ascii String List Arith ZArith NArith Bool.
Import ListNotations.
From Selfies Require Import Base Reader DocGrammar.
Local Open Scope Z_scope.

(* ---------- C03: same molecule, atom for atom ---------- *)
Definition atom_same (a b : satom) : bool :=
  str_eqb (sa_elem a) (sa_elem b) && opt_eqb N.eqb (sa_iso a) (sa_iso b)
  && opt_eqb N.eqb (sa_h a) (sa_h b) && Z.eqb (sa_charge a) (sa_charge b).

Definition find_slot (row : list nslot) (p : nat) : option nslot :=
  find (fun s => Nat.eqb (sl_to s) p) row.

(* input bond order -> admissible output order: aromatic (3) becomes single or double *)
Definition order_ok (o_in o_out : Z) : bool :=
  if o_in =? 3 then (o_out =? 2) || (o_out =? 4) else o_in =? o_out.

Definition row_same (rin rout : list nslot) : bool :=
  Nat.eqb (length rin) (length rout)
  && forallb (fun s => match find_slot rout (sl_to s) with
                       | Some s' => order_ok (sl_order2 s) (sl_order2 s')
                       | None => false end) rin
  && forallb (fun s => match find_slot rin (sl_to s) with Some _ => true | None => false end) rout.

Fixpoint forall2b {A B} (f : A -> B -> bool) (a : list A) (b : list B) : bool :=
  match a, b with
  | [], [] => true
  | x :: a', y :: b' => f x y && forall2b f a' b'
  | _, _ => false
  end.

Definition same_molecule (min mout : smol) : bool :=
  forall2b atom_same (sm_atoms min) (sm_atoms mout) && forall2b row_same (sm_nbrs min) (sm_nbrs mout).

(* ---------- C04: stereo ---------- *)
(* neighbour sequence of an atom as written: preceding atom, implicit H, then the
   remaining slots in order.  H is encoded as None. *)
(* with the atom's own index: the first slot is the preceding atom iff it is a
   non-ring bond to a smaller index *)
Definition nbr_seq_i (i : nat) (a : satom) (row : list nslot) : list (option nat) :=
  let has_h := match sa_h a with Some h => negb (N.eqb h 0) | None => false end in
  let hs := if has_h then [None] else [] in
  match row with
  | s :: rest =>
      if negb (sl_ring s) && (sl_to s <? i)%nat
      then Some (sl_to s) :: hs ++ map (fun x => Some (sl_to x)) rest
      else hs ++ map (fun x => Some (sl_to x)) row
  | [] => hs
  end.

Definition onat_eqb (a b : option nat) : bool := opt_eqb Nat.eqb a b.

Fixpoint pos_of (x : option nat) (l : list (option nat)) (k : nat) : option nat :=
  match l with
  | [] => None
  | y :: r => if onat_eqb x y then Some k else pos_of x r (S k)
  end.

Fixpoint positions (xs ref : list (option nat)) : option (list nat) :=
  match xs with
  | [] => Some []
  | x :: r => match pos_of x ref 0, positions r ref with
              | Some p, Some ps => Some (p :: ps)
              | _, _ => None end
  end.

Fixpoint count_lt (x : nat) (l : list nat) : nat :=
  match l with [] => 0%nat | y :: r => ((if (y <? x)%nat then 1 else 0) + count_lt x r)%nat end.
Fixpoint inversions (l : list nat) : nat :=
  match l with [] => 0%nat | x :: r => (count_lt x r + inversions r)%nat end.

(* parity (true = odd) of the permutation taking sequence a to sequence b *)
Definition perm_parity (a b : list (option nat)) : option bool :=
  if negb (Nat.eqb (length a) (length b)) then None else
  match positions b a with
  | Some ps => if has_dup ps then None else Some (Nat.odd (inversions ps))
  | None => None
  end.

Definition tag_bit (c : str) : bool := Nat.eqb (length c) 2.    (* "@" = false, "@@" = true *)

Definition chiral_same (i : nat) (ain aout : satom) (rin rout : list nslot) : bool :=
  match sa_chi ain, sa_chi aout with
  | None, None => true
  | Some ti, Some to =>
      match perm_parity (nbr_seq_i i ain rin) (nbr_seq_i i aout rout) with
      | Some odd => Bool.eqb (xorb (tag_bit ti) (tag_bit to)) odd
      | None => false
      end
  | _, _ => false
  end.

(* every '/' '\' mark is found again on the same bond, same end, same direction *)
Definition marks_same (rin rout : list nslot) : bool :=
  forallb (fun s => match sl_mark s with
                    | None => true
                    | Some mk => match find_slot rout (sl_to s) with
                                 | Some s' => opt_eqb N.eqb (sl_mark s') (Some mk) && Bool.eqb (sl_ring s) (sl_ring s')
                                 | None => false end
                    end) rin
  && forallb (fun s => match sl_mark s with
                       | None => true
                       | Some mk => match find_slot rin (sl_to s) with
                                    | Some s' => opt_eqb N.eqb (sl_mark s') (Some mk)
                                    | None => false end
                       end) rout.

Fixpoint zip3 {A B C} (a : list A) (b : list B) (c : list C) : list (A * B * C) :=
  match a, b, c with
  | x :: a', y :: b', z :: c' => (x, y, z) :: zip3 a' b' c'
  | _, _, _ => []
  end.

Definition same_stereo (min mout : smol) : bool :=
  let n := length (sm_atoms min) in
  Nat.eqb n (length (sm_atoms mout)) &&
  forallb (fun '(i, (ai, ri), (ao, ro)) => chiral_same i ai ao ri ro && marks_same ri ro)
          (zip3 (seq 0 n) (combine (sm_atoms min) (sm_nbrs min)) (combine (sm_atoms mout) (sm_nbrs mout))).

(* ---------- C05: kekulisation ---------- *)
(* target valence of the standard aromatic atom kinds; None = not a standard kind *)
Definition target_valence (a : satom) : option Z :=
  let e := sa_elem a in let c := sa_charge a in
  let is s := str_eqb e (lit s) in
  if is "C"%string then (if c =? 0 then Some 4 else if (c =? 1) || (c =? -1) then Some 3 else None)
  else if is "N"%string then (if c =? 0 then Some 3 else if c =? 1 then Some 4 else if c =? -1 then Some 2 else None)
  else if is "O"%string then (if c =? 0 then Some 2 else if c =? 1 then Some 3 else None)
  else if is "S"%string then (if c =? 0 then Some 2 else if c =? 1 then Some 3 else None)
  else if is "P"%string || is "As"%string then (if c =? 0 then Some 3 else if c =? 1 then Some 4 else None)
  else if is "Se"%string || is "Te"%string then (if c =? 0 then Some 2 else if c =? 1 then Some 3 else None)
  else None.     (* B, Al, Si and higher charges: not judged beyond "at most one double bond" *)

(* group valence electrons and aromatic valences of the elements that can be aromatic (periodic-table facts) *)
Definition doc_valence_electrons : list (str * Z) :=
  map (fun '(e, v) => (lit e, v))
      [("B", 3); ("Al", 3); ("C", 4); ("Si", 4); ("N", 5); ("P", 5); ("As", 5); ("O", 6); ("S", 6); ("Se", 6); ("Te", 6)]%string.
Definition doc_aromatic_valences : list (str * list Z) :=
  map (fun '(e, v) => (lit e, v))
      [("B", [3]); ("Al", [3]); ("C", [4]); ("Si", [4]); ("N", [3; 5]); ("P", [3; 5]); ("As", [3; 5]);
       ("O", [2; 4]); ("S", [2; 4]); ("Se", [2; 4]); ("Te", [2; 4])]%string.

(* sigma: every bond counted once + the extra order of non-aromatic multiple bonds *)
Definition sigma (row : list nslot) : Z :=
  fold_left (fun acc s => acc + (if sl_order2 s =? 3 then 1 else sl_order2 s / 2)) row 0.

Definition aromatic_degree (row : list nslot) : nat := length (filter (fun s => sl_order2 s =? 3) row).

(* Some true: needs exactly one pi bond in the aromatic system; Some false: none; None: exotic *)
Definition needs_pi (a : satom) (row : list nslot) : option bool :=
  if Nat.eqb (aromatic_degree row) 0 then Some false else
  match target_valence a with
  | None => None
  | Some t =>
      match sa_h a with
      | None => (* unbracketed: implicit hydrogens fill what a pi bond leaves open; a neutral N / P / As / O / S / Se / Te
                   whose substituents already bring it to its higher valence (t + 2: S(=O), P(=O)(C), ...) is satisfied
                   by them, one short of it (n(=O)) needs the pi bond *)
                let hi := negb (str_eqb (sa_elem a) (lit "C")) && (sa_charge a =? 0) in
                if t =? sigma row then Some false
                else if sigma row <? t then Some true
                else if hi && (sigma row =? t + 2) then Some false
                else if hi && (sigma row =? t + 1) then Some true
                else None
      | Some h => let v := sigma row + Z.of_N h in
                  if v =? t then Some false else if v =? t - 1 then Some true else None
      end
  end.

Definition doubles_in_system (rin rout : list nslot) : nat :=
  length (filter (fun s => (sl_order2 s =? 3) &&
                           match find_slot rout (sl_to s) with Some s' => sl_order2 s' =? 4 | None => false end) rin).

(* per atom: at most one double bond inside the former aromatic system; exactly
   one / none for the standard kinds, as the independent rule says *)
Definition kekule_atom_ok (a : satom) (rin rout : list nslot) : bool :=
  let d := doubles_in_system rin rout in
  match needs_pi a rin with
  | Some true => Nat.eqb d 1
  | Some false => Nat.eqb d 0
  | None => (d <=? 1)%nat
  end.

Definition kekule_ok (min mout : smol) : bool :=
  forall2b (fun '(a, ri) ro => kekule_atom_ok a ri ro) (combine (sm_atoms min) (sm_nbrs min)) (sm_nbrs mout).

Definition all_standard (m : smol) : bool :=
  forallb (fun '(a, row) => match needs_pi a row with Some _ => true | None => false end)
          (combine (sm_atoms m) (sm_nbrs m)).

(* does an alternating assignment exist?  perfect matching of the atoms that need a pi
   bond along aromatic bonds between them: backtracking on the first unmatched vertex *)
Definition pi_graph (m : smol) : list (list nat) * list bool :=
  let need := map (fun '(a, row) => match needs_pi a row with Some true => true | _ => false end)
                  (combine (sm_atoms m) (sm_nbrs m)) in
  (map (fun '(i, row) =>
          if nth i need false
          then map sl_to (filter (fun s => (sl_order2 s =? 3) && nth (sl_to s) need false) row)
          else []) (combine (seq 0 (length (sm_nbrs m))) (sm_nbrs m)),
   need).

Fixpoint first_free (need matched : list bool) (k : nat) : option nat :=
  match need, matched with
  | n :: nr, m :: mr => if n && negb m then Some k else first_free nr mr (S k)
  | _, _ => None
  end.

Fixpoint has_pm_fuel (fuel : nat) (g : list (list nat)) (need matched : list bool) : bool :=
  match fuel with
  | O => false
  | S f =>
    match first_free need matched 0 with
    | None => true
    | Some v =>
        existsb (fun u => negb (nth u matched true) && negb (Nat.eqb u v) &&
                          has_pm_fuel f g need (upd (upd matched v (fun _ => true)) u (fun _ => true)))
                (nth v g [])
    end
  end.

Definition has_kekule_structure (m : smol) : bool :=
  let '(g, need) := pi_graph m in
  has_pm_fuel (S (length need)) g need (repeat false (length need)).

(* ---------- C06: does the molecule violate the table? ---------- *)
Definition violates (T : list (str * Z)) (m : smol) : bool := negb (valence_ok T m).

(* perfect matching of a raw graph (every vertex must be matched) *)
Definition graph_has_pm (g : list (list nat)) : bool :=
  let need := repeat true (length g) in
  has_pm_fuel (S (length g)) g need (repeat false (length g)).

(* m is a perfect matching of g: an involution without fixed points along edges *)
Definition is_perfect_matching (g : list (list nat)) (m : list (option nat)) : bool :=
  Nat.eqb (length m) (length g) &&
  forallb (fun '(i, mi) => match mi with
                           | None => false
                           | Some j => negb (Nat.eqb i j) && existsb (Nat.eqb j) (nth i g [])
                                       && match nth j m None with Some k => Nat.eqb k i | None => false end
                           end) (combine (seq 0 (length m)) m).
