(* EncSpec.v — what C15 says the label / one-hot encodings are, written as
   plain list functions over a vocabulary, independent of encoding_utils.py. *)
From Coq Require Import List ZArith NArith Bool Arith.
Import ListNotations.
From Selfies Require Import Base WfSpec.

Definition nop_item : item := ([110; 111; 112]%N, false).   (* "nop" *)

(* number of padding symbols: max(0, pad - len) *)
Definition pad_count (len : nat) (pad : Z) : nat := Z.to_nat (pad - Z.of_nat len).

(* the padded token list *)
Definition padded (l : list item) (pad : Z) : list item :=
  l ++ repeat nop_item (pad_count (length (tokens l)) pad).

(* label encoding: vocabulary index of every token, in order *)
Fixpoint labels (stoi : list (str * Z)) (ts : list str) : option (list Z) :=
  match ts with
  | [] => Some []
  | t :: r => match assoc t stoi, labels stoi r with
              | Some i, Some rest => Some (i :: rest)
              | _, _ => None
              end
  end.

(* one-hot row: exactly one 1, at position i *)
Definition unit_row (n : nat) (i : Z) : list Z :=
  map (fun j => if (Z.of_nat j =? i)%Z then 1%Z else 0%Z) (seq 0 n).

(* a vocabulary pair that is a bijection onto 0..n-1 *)
Definition vocab_ok (stoi : list (str * Z)) (itos : list (Z * str)) : Prop :=
  length itos = length stoi /\
  (forall s i, assoc s stoi = Some i -> (0 <= i < Z.of_nat (length stoi))%Z) /\
  (forall s i, assoc s stoi = Some i -> assocZ i itos = Some s).
