(* Footprint.v — the shared mutable state of the package that the models of
   C11 / C12 / C19 account for, written by hand.  Generated.shared_state /
   shared_writers (extracted from the source by `ast` on every run) must equal
   these lists: a new module-level cache, a new writer, or scratch state shared
   between calls changes the generated lists and the equality no longer checks. *)
From Coq Require Import String List NArith.
Import ListNotations.
From Selfies Require Import Base.
Local Open Scope string_scope.

(* (module, name, kind) *)
Definition modelled_shared_state : list (str * str * str) :=
  map (fun '(a, b, c) => (lit a, lit b, lit c))
  [ ("selfies.bond_constraints", "_current_constraints", "written-alias");   (* Config.l_current; read-only during translation *)
    ("selfies.bond_constraints", "get_bonding_capacity", "lru_cache");       (* Config.l_cap_memo; Conc.TCall *)
    ("selfies.bond_constraints", "get_semantic_robust_alphabet", "lru_cache"); (* Config.l_alpha_cache; not used by translation *)
    ("selfies.grammar_rules", "_PROCESS_ATOM_CACHE", "written-call");        (* Config.l_atom_cache; Conc.TCached *)
    ("selfies.mol_graph", "Atom.bonding_capacity", "lru_cache") ].           (* keyed by call-local Atom objects; Conc.TCall *)

(* (module, function, name, how) *)
Definition modelled_writers : list (str * str * str * str) :=
  map (fun '(a, b, c, d) => (lit a, lit b, lit c, lit d))
  [ ("selfies.bond_constraints", "set_semantic_constraints", "_current_constraints", "rebind");
    ("selfies.bond_constraints", "set_semantic_constraints", "get_bonding_capacity", "cache_clear");
    ("selfies.bond_constraints", "set_semantic_constraints", "get_semantic_robust_alphabet", "cache_clear");
    ("selfies.grammar_rules", "process_atom_symbol", "_PROCESS_ATOM_CACHE", "setitem") ].
