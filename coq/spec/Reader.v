(* Reader.v — an independent SMILES reader and validity checker (Spec layer).
   Written from the OpenSMILES subset that selfies emits/accepts, NOT from
   smiles_utils.py: it judges the decoder's output (C01, C02, C07) and reads
   both sides of a round trip (C03, C04).
   Result: the abstract molecule [smol] — atoms in order of appearance and, per
   atom, the ordered list of neighbour slots exactly as written (preceding
   atom, ring-closure digits in order, branches, chain). *)
From Coq Require Import Ascii String List Arith ZArith NArith Bool.
Import ListNotations.
From Selfies Require Import Base.

(* ---------- abstract molecule ---------- *)
Record satom := {
  sa_elem : str;            (* element symbol, capitalised; aromatic flag separate *)
  sa_arom : bool;
  sa_iso : option N;
  sa_chi : option str;      (* "@" / "@@" *)
  sa_h : option N;          (* None = unbracketed atom (implicit hydrogens) *)
  sa_charge : Z
}.

(* one neighbour nslot of an atom, in written order *)
Record nslot := {
  sl_to : nat;              (* partner atom *)
  sl_order2 : Z;            (* bond order in HALF units: 2 single, 3 aromatic, 4 double, 6 triple *)
  sl_mark : option N;       (* '/' or '\' as written at this end *)
  sl_ring : bool            (* ring-closure bond (written as a label) *)
}.

Record smol := { sm_atoms : list satom; sm_nbrs : list (list nslot) }.

(* ---------- lexical helpers ---------- *)
Definition is_digit (c : N) : bool := ((48 <=? c) && (c <=? 57))%N.
Definition is_up (c : N) : bool := ((65 <=? c) && (c <=? 90))%N.
Definition is_low (c : N) : bool := ((97 <=? c) && (c <=? 122))%N.
Definition dval (c : N) : N := (c - 48)%N.

Fixpoint take_while (p : N -> bool) (s : str) : str * str :=
  match s with
  | [] => ([], [])
  | c :: r => if p c then let '(a, b) := take_while p r in (c :: a, b) else ([], s)
  end.

Definition number (ds : str) : N := fold_left (fun acc c => (acc * 10 + dval c)%N) ds 0%N.

(* ---------- bracket atoms:  '[' iso? Elem chir? ('H' digit?)? (charge)? (':' class)? ']' ---------- *)
Definition organic : list str := map lit ["B"; "C"; "N"; "O"; "P"; "S"; "F"; "I"; "Cl"; "Br"]%string.
Definition aromatic_organic : list str := map lit ["b"; "c"; "n"; "o"; "p"; "s"]%string.
Definition aromatic_bracket : list str := map lit ["b"; "c"; "n"; "o"; "p"; "s"; "se"; "as"; "te"; "si"; "al"]%string.

Definition cap_first (s : str) : str :=
  match s with [] => [] | c :: r => (if is_low c then (c - 32)%N else c) :: r end.

(* chirality tag: "@@", "@" or nothing *)
Definition read_chi (s : str) : option str * str :=
  match s with
  | c1 :: r1 =>
      if N.eqb c1 64 then
        match r1 with
        | c2 :: r2 => if N.eqb c2 64 then (Some [64%N; 64%N], r2) else (Some [64%N], r1)
        | [] => (Some [64%N], r1)
        end
      else (None, s)
  | [] => (None, s)
  end.

Definition parse_bracket (body : str) : option satom :=   (* body = text between '[' and ']' *)
  let '(iso, s1) := take_while is_digit body in
  match s1 with
  | e1 :: s2 =>
    if negb (is_up e1 || is_low e1) then None else
    let '(elem, s3) := match s2 with
                       | e2 :: r => if is_low e2 then ([e1; e2], r) else ([e1], s2)
                       | [] => ([e1], s2) end in
    let '(chi, s4) := read_chi s3 in
    let '(h, s5) := match s4 with
                    | c :: r => if N.eqb c 72 then
                                  match r with
                                  | d :: r' => if is_digit d then (dval d, r') else (1%N, r)
                                  | [] => (1%N, r) end
                                else (0%N, s4)
                    | [] => (0%N, s4) end in
    let '(chg, s6) :=
      match s5 with
      | sg :: r =>
        if (N.eqb sg 43 || N.eqb sg 45) then
          let sign := if N.eqb sg 43 then 1%Z else (-1)%Z in
          let '(ds, r') := take_while is_digit r in
          match ds with
          | [] => let '(run, r'') := take_while (N.eqb sg) r in
                  ((Z.of_nat (S (length run)) * sign)%Z, r'')
          | _ => ((Z.of_N (number ds) * sign)%Z, r')
          end
        else (0%Z, s5)
      | [] => (0%Z, s5) end in
    let ok_tail := match s6 with
                   | [] => true
                   | c :: r => if N.eqb c 58 then
                                 let '(ds, r') := take_while is_digit r in
                                 negb (Nat.eqb (length ds) 0) && Nat.eqb (length r') 0
                               else false
                   end in
    if negb ok_tail then None else
    let arom := is_low e1 in
    if arom && negb (mem_str elem aromatic_bracket) then None else
    Some {| sa_elem := cap_first elem; sa_arom := arom;
            sa_iso := match iso with [] => None | _ => Some (number iso) end;
            sa_chi := chi; sa_h := Some h; sa_charge := chg |}
  | [] => None
  end.

(* ---------- tokens ---------- *)
Inductive stok :=
| RAtom (a : satom)
| RBond (order2 : Z) (mark : option N)
| ROpen | RClose | RDot
| RRing (label : N).

Fixpoint split_at_rb (s : str) : option (str * str) :=
  match s with
  | [] => None
  | c :: r => if N.eqb c 93 then Some ([], r)
              else match split_at_rb r with Some (a, b) => Some (c :: a, b) | None => None end
  end.

Definition plain (e : str) (arom : bool) : satom :=
  {| sa_elem := cap_first e; sa_arom := arom; sa_iso := None; sa_chi := None; sa_h := None; sa_charge := 0 |}.

Fixpoint lex_smiles (fuel : nat) (s : str) : option (list stok) :=
  match fuel with O => None | S f =>
  match s with
  | [] => Some []
  | c :: r =>
    let k t rest := match lex_smiles f rest with Some l => Some (t :: l) | None => None end in
    if N.eqb c 40 then k ROpen r
    else if N.eqb c 41 then k RClose r
    else if N.eqb c 46 then k RDot r
    else if N.eqb c 45 then k (RBond 2 None) r
    else if N.eqb c 61 then k (RBond 4 None) r
    else if N.eqb c 35 then k (RBond 6 None) r
    else if N.eqb c 58 then k (RBond 3 None) r
    else if N.eqb c 47 then k (RBond 2 (Some c)) r
    else if N.eqb c 92 then k (RBond 2 (Some c)) r
    else if is_digit c then k (RRing (dval c)) r
    else if N.eqb c 37 then
      match r with
      | d1 :: d2 :: r' => (* %nn with nn >= 10 only: readers disagree on %0n, such inputs are not judged *)
                          if is_digit d1 && is_digit d2 && negb (N.eqb d1 48)
                          then k (RRing (dval d1 * 10 + dval d2)%N) r' else None
      | _ => None end
    else if N.eqb c 91 then
      match split_at_rb r with
      | Some (body, r') => match parse_bracket body with
                           | Some a => k (RAtom a) r'
                           | None => None end
      | None => None end
    else
      match r with
      | c2 :: r' =>
          if mem_str [c; c2] organic then k (RAtom (plain [c; c2] false)) r'
          else if mem_str [c] organic then k (RAtom (plain [c] false)) r
          else if mem_str [c] aromatic_organic then k (RAtom (plain [c] true)) r
          else None
      | [] =>
          if mem_str [c] organic then k (RAtom (plain [c] false)) r
          else if mem_str [c] aromatic_organic then k (RAtom (plain [c] true)) r
          else None
      end
  end end.

(* ---------- graph construction ---------- *)
Record rstate := {
  r_atoms : list satom;
  r_nbrs : list (list (option nslot));     (* None = ring label opened, partner not yet known *)
  r_prev : option nat;
  r_stack : list (option nat);
  r_pend : option (Z * option N);         (* bond symbol waiting for its atom / label *)
  r_open : list (N * (nat * nat * option (Z * option N)))  (* label -> (atom, nslot position, bond written at the opening) *)
}.

Definition set_slot (l : list (option nslot)) (pos : nat) (s : nslot) : list (option nslot) :=
  upd l pos (fun _ => Some s).

Fixpoint lookupN {A} (k : N) (l : list (N * A)) : option A :=
  match l with [] => None | (k', v) :: r => if N.eqb k k' then Some v else lookupN k r end.
Fixpoint removeN {A} (k : N) (l : list (N * A)) : list (N * A) :=
  match l with [] => [] | (k', v) :: r => if N.eqb k k' then r else (k', v) :: removeN k r end.

(* default bond between two atoms: aromatic (3) if both aromatic, else single (2) *)
Definition default_order (a b : satom) : Z := if sa_arom a && sa_arom b then 3%Z else 2%Z.

Definition step (st : rstate) (t : stok) : option rstate :=
  match t with
  | RAtom a =>
      let k := length (r_atoms st) in
      match r_prev st with
      | None =>
          match r_pend st with
          | Some _ => None                      (* bond with nothing before it *)
          | None => Some {| r_atoms := r_atoms st ++ [a]; r_nbrs := r_nbrs st ++ [[]];
                            r_prev := Some k; r_stack := r_stack st; r_pend := None; r_open := r_open st |}
          end
      | Some p =>
          match nth_error (r_atoms st) p with
          | None => None
          | Some pa =>
            let '(o, mk) := match r_pend st with Some b => b | None => (default_order pa a, None) end in
            let sp := {| sl_to := k; sl_order2 := o; sl_mark := mk; sl_ring := false |} in
            let sk := {| sl_to := p; sl_order2 := o; sl_mark := mk; sl_ring := false |} in
            Some {| r_atoms := r_atoms st ++ [a];
                    r_nbrs := upd (r_nbrs st) p (fun l => l ++ [Some sp]) ++ [[Some sk]];
                    r_prev := Some k; r_stack := r_stack st; r_pend := None; r_open := r_open st |}
          end
      end
  | RBond o mk =>
      match r_pend st, r_prev st with
      | None, Some _ => Some {| r_atoms := r_atoms st; r_nbrs := r_nbrs st; r_prev := r_prev st;
                                r_stack := r_stack st; r_pend := Some (o, mk); r_open := r_open st |}
      | _, _ => None
      end
  | ROpen =>
      match r_pend st, r_prev st with
      | None, Some _ => Some {| r_atoms := r_atoms st; r_nbrs := r_nbrs st; r_prev := r_prev st;
                                r_stack := r_prev st :: r_stack st; r_pend := None; r_open := r_open st |}
      | _, _ => None
      end
  | RClose =>
      match r_pend st, r_stack st with
      | None, top :: rest => Some {| r_atoms := r_atoms st; r_nbrs := r_nbrs st; r_prev := top;
                                     r_stack := rest; r_pend := None; r_open := r_open st |}
      | _, _ => None
      end
  | RDot =>
      match r_pend st, r_stack st with
      | None, [] => Some {| r_atoms := r_atoms st; r_nbrs := r_nbrs st; r_prev := None;
                            r_stack := []; r_pend := None; r_open := r_open st |}
      | _, _ => None                              (* dot inside a branch / after a bond: rejected *)
      end
  | RRing lab =>
      match r_prev st with
      | None => None
      | Some k =>
        match lookupN lab (r_open st) with
        | None =>
            let pos := length (nth k (r_nbrs st) []) in
            Some {| r_atoms := r_atoms st; r_nbrs := upd (r_nbrs st) k (fun l => l ++ [None]);
                    r_prev := r_prev st; r_stack := r_stack st; r_pend := None;
                    r_open := r_open st ++ [(lab, (k, pos, r_pend st))] |}
        | Some (a, pos, ob) =>
            if Nat.eqb a k then None else          (* bond from an atom to itself *)
            match nth_error (r_atoms st) a, nth_error (r_atoms st) k with
            | Some aa, Some ka =>
              (* order: written on either end (must agree when on both) *)
              let oa := match ob with Some (o, _) => Some o | None => None end in
              let ok_ := match r_pend st with Some (o, _) => Some o | None => None end in
              let order := match oa, ok_ with
                           | Some x, Some y => if Z.eqb x y then Some x else None
                           | Some x, None => Some x
                           | None, Some y => Some y
                           | None, None => Some (default_order aa ka) end in
              match order with
              | None => None
              | Some o =>
                let ma := match ob with Some (_, m) => m | None => None end in
                let mk := match r_pend st with Some (_, m) => m | None => None end in
                let sa := {| sl_to := k; sl_order2 := o; sl_mark := ma; sl_ring := true |} in
                let sk := {| sl_to := a; sl_order2 := o; sl_mark := mk; sl_ring := true |} in
                Some {| r_atoms := r_atoms st;
                        r_nbrs := upd (upd (r_nbrs st) a (fun l => set_slot l pos sa)) k (fun l => l ++ [Some sk]);
                        r_prev := r_prev st; r_stack := r_stack st; r_pend := None;
                        r_open := removeN lab (r_open st) |}
              end
            | _, _ => None
            end
        end
      end
  end.

Fixpoint steps (st : rstate) (ts : list stok) : option rstate :=
  match ts with [] => Some st | t :: r => match step st t with Some st' => steps st' r | None => None end end.

Fixpoint all_some {A} (l : list (option A)) : option (list A) :=
  match l with
  | [] => Some []
  | Some x :: r => match all_some r with Some t => Some (x :: t) | None => None end
  | None :: _ => None
  end.
Fixpoint all_some_rows {A} (l : list (list (option A))) : option (list (list A)) :=
  match l with
  | [] => Some []
  | row :: r => match all_some row, all_some_rows r with
                | Some x, Some t => Some (x :: t) | _, _ => None end
  end.

(* tokens that may not end a SMILES / a fragment *)
Definition last_ok (ts : list stok) : bool :=
  match rev ts with
  | RDot :: _ => false
  | _ => true
  end.
Fixpoint no_double_dot (ts : list stok) : bool :=
  match ts with
  | RDot :: ((RDot :: _) as r) => false
  | _ :: r => no_double_dot r
  | [] => true
  end.
Definition first_ok (ts : list stok) : bool := match ts with RDot :: _ => false | _ => true end.

(* read: None = not a well-formed SMILES (unbalanced, bad/unpaired label, self bond, …) *)
Definition read_smiles (s : str) : option smol :=
  match lex_smiles (S (length s)) s with
  | None => None
  | Some ts =>
    if negb (last_ok ts && no_double_dot ts && first_ok ts) then None else
    match steps {| r_atoms := []; r_nbrs := []; r_prev := None; r_stack := []; r_pend := None; r_open := [] |} ts with
    | None => None
    | Some st =>
      match r_pend st, r_stack st, r_open st with
      | None, [], [] =>
          match all_some_rows (r_nbrs st) with
          | Some nb => Some {| sm_atoms := r_atoms st; sm_nbrs := nb |}
          | None => None
          end
      | _, _, _ => None
      end
    end
  end.

(* ---------- validity of the molecule that was read ---------- *)
Fixpoint has_dup (l : list nat) : bool :=
  match l with [] => false | x :: r => existsb (Nat.eqb x) r || has_dup r end.

(* no second bond between an already bonded pair, no self bond (self bonds are
   already refused by [step]; kept for clarity) *)
Definition simple_graph (m : smol) : bool :=
  forallb (fun '(i, row) => negb (has_dup (map sl_to row)) && negb (existsb (fun s => Nat.eqb (sl_to s) i) row))
          (combine (seq 0 (length (sm_nbrs m))) (sm_nbrs m)).

(* capacity of an atom under a table: key E, E+n, E-n, fallback "?" *)
Definition cap_key (a : satom) : str :=
  if (sa_charge a =? 0)%Z then sa_elem a
  else sa_elem a ++ (if (0 <? sa_charge a)%Z then [43%N] else [45%N]) ++ str_of_N (Z.abs_N (sa_charge a)).

Definition capacity (T : list (str * Z)) (a : satom) : option Z :=
  match assoc (cap_key a) T with
  | Some c => Some c
  | None => assoc [63%N] T
  end.

(* sum of bond orders (half units, must be integral for a kekulé structure) *)
Definition bond_sum2 (row : list nslot) : Z := fold_left (fun acc s => (acc + sl_order2 s)%Z) row 0%Z.

Definition valence_ok (T : list (str * Z)) (m : smol) : bool :=
  forallb (fun '(a, row) =>
             match capacity T a with
             | None => false
             | Some c => (bond_sum2 row + 2 * Z.of_N (match sa_h a with Some h => h | None => 0%N end) <=? 2 * c)%Z
             end)
          (combine (sm_atoms m) (sm_nbrs m)).

Definition kekule_form (m : smol) : bool :=
  forallb (fun a => negb (sa_arom a)) (sm_atoms m) &&
  forallb (fun row => forallb (fun s => negb (Z.eqb (sl_order2 s) 3)) row) (sm_nbrs m).

(* C01's conclusion as a boolean: the string is a well-formed SMILES whose
   molecule is a simple graph obeying the table *)
Definition valid_smiles_under (T : list (str * Z)) (s : str) : bool :=
  match read_smiles s with
  | None => false
  | Some m => simple_graph m && valence_ok T m && kekule_form m
  end.
