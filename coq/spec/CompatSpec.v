(* CompatSpec.v — the documented modern equivalents of pre-v2 SELFIES symbols
   (README / CHANGELOG v2.0.0), written by hand. *)
From Coq Require Import Ascii String List NArith.
Import ListNotations.
From Selfies Require Import Base.
Local Open Scope string_scope.

Definition doc_legacy_table : list (str * str) :=
  flat_map (fun L => map (fun '(o, n) => (lit (fst o ++ L ++ snd o), lit (fst n ++ L ++ snd n)))
    [ (("[Branch", "_1]"), ("[Branch", "]"));
      (("[Branch", "_2]"), ("[=Branch", "]"));
      (("[Branch", "_3]"), ("[#Branch", "]"));
      (("[Expl=Ring", "]"), ("[=Ring", "]"));
      (("[Expl#Ring", "]"), ("[#Ring", "]"));
      (("[Expl/Ring", "]"), ("[//Ring", "]"));
      (("[Expl\Ring", "]"), ("[\\Ring", "]")) ])
    ["1"; "2"; "3"].
