(* IndexSpec.v — the index code as docs/source/derivation.rst documents it
   (table "Index symbols"), written by hand, independent of constants.py. *)
From Coq Require Import Ascii String List NArith.
Import ListNotations.
From Selfies Require Import Base.

Definition documented_index_alphabet : list str := map lit
  [ "[C]"; "[Ring1]"; "[Ring2]"; "[Branch1]"; "[=Branch1]"; "[#Branch1]";
    "[Branch2]"; "[=Branch2]"; "[#Branch2]"; "[O]"; "[N]"; "[=N]"; "[=C]"; "[#C]"; "[S]"; "[P]" ]%string.

(* digit value of a symbol: its position in the documented order, 0 otherwise *)
Definition doc_digit (c : option str) : N :=
  match c with
  | None => 0%N
  | Some s => match index_of s documented_index_alphabet 0 with Some i => N.of_nat i | None => 0%N end
  end.

(* big-endian base-16 value *)
Fixpoint doc_value (ds : list N) : N :=
  match ds with [] => 0%N | d :: r => (d * 16 ^ N.of_nat (length r) + doc_value r)%N end.
