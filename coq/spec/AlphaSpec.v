(* AlphaSpec.v — what C07 says the semantically robust alphabet contains. *)
From Coq Require Import Ascii String List ZArith NArith Bool.
Import ListNotations.
From Selfies Require Import Base IndexSpec.
Local Open Scope string_scope.

Definition spec_fixed : list str :=
  documented_index_alphabet ++
  map lit ["[Branch1]"; "[=Branch1]"; "[#Branch1]"; "[Branch2]"; "[=Branch2]"; "[#Branch2]";
           "[Branch3]"; "[=Branch3]"; "[#Branch3]";
           "[Ring1]"; "[=Ring1]"; "[Ring2]"; "[=Ring2]"; "[Ring3]"; "[=Ring3]"].

(* x is in the alphabet of table t *)
Definition in_alphabet_spec (t : list (str * Z)) (x : str) : Prop :=
  In x spec_fixed \/
  exists k c b m, In (k, c) t /\ In (b, m) [([], 1%Z); (lit "=", 2%Z); (lit "#", 3%Z)] /\
                  k <> lit "?" /\ (m <= c)%Z /\ x = (lit "[" ++ b ++ k ++ lit "]")%list.
