(* WfSpec.v — well-formed SELFIES strings as the property text describes them:
   bracketed symbols whose text has no bracket and no dot inside, each
   optionally followed by one dot.  Independent of the lexer's code. *)
From Coq Require Import List NArith Bool.
Import ListNotations.
From Selfies Require Import Base.

Definition body_char (c : N) : bool := negb (N.eqb c 91 || N.eqb c 93 || N.eqb c 46).

(* an item = symbol body, and whether a dot follows it *)
Definition item := (str * bool)%type.
Definition wf_item (i : item) : Prop := forallb body_char (fst i) = true.
Definition sym_of (b : str) : str := 91%N :: b ++ [93%N].
Definition render_item (i : item) : str := sym_of (fst i) ++ (if snd i then [46%N] else []).
Definition tokens_item (i : item) : list str := sym_of (fst i) :: (if snd i then [[46%N]] else []).
Definition render (l : list item) : str := flat_map render_item l.
Definition tokens (l : list item) : list str := flat_map tokens_item l.
Definition wf (l : list item) : Prop := Forall wf_item l.
Definition symbols (l : list item) : list str := map (fun i => sym_of (fst i)) l.

(* ---------- executable recogniser (oracle run on implementation outputs) ---------- *)
Fixpoint take_body (s : str) : option (str * str) :=
  match s with
  | [] => None
  | c :: r =>
      if N.eqb c 93 then Some ([], r)
      else if body_char c then
        match take_body r with Some (b, r') => Some (c :: b, r') | None => None end
      else None
  end.

Fixpoint wf_parse_fuel (fuel : nat) (s : str) : option (list item) :=
  match fuel with
  | O => None
  | S f =>
    match s with
    | [] => Some []
    | c :: r =>
      if N.eqb c 91 then
        match take_body r with
        | None => None
        | Some (b, r') =>
          match r' with
          | d :: r'' =>
              if N.eqb d 46
              then match wf_parse_fuel f r'' with Some l => Some ((b, true) :: l) | None => None end
              else match wf_parse_fuel f r' with Some l => Some ((b, false) :: l) | None => None end
          | [] => Some [(b, false)]
          end
        end
      else None
    end
  end.
Definition wf_parse (s : str) : option (list item) := wf_parse_fuel (S (length s)) s.
