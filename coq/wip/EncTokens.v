(* EncTokens.v — C10: the symbols the encoder emits are atom symbols printed from the atoms of the molecule,
   index symbols, branch symbols and ring symbols. *)
From Coq Require Import Ascii String List Arith ZArith NArith Bool Lia.
Import ListNotations.
From Selfies Require Import Base Generated Lex Atoms Grammar Decoder Smiles PySet Matching Kekulize Encoder BaseFacts.
Local Open Scope Z_scope.

Inductive etok (m : emol) : str -> Prop :=
| et_atom b a at_ i tok : mg_get_atom m i = Ok (a, at_) -> atom_to_selfies b a = Ok tok -> etok m tok
| et_index t : In t index_alphabet -> etok m t
| et_branch b bs n : bond_to_selfies b false = Ok bs -> etok m (lit "[" ++ bs ++ lit "Branch" ++ str_of_nat n ++ lit "]")
| et_ring lb rb rs n : ring_bonds_to_selfies lb rb = Ok rs -> etok m (lit "[" ++ rs ++ lit "Ring" ++ str_of_nat n ++ lit "]").

Lemma syms_of_digits_in : forall ds Q, syms_of_digits ds = Ok Q -> Forall (fun t => In t index_alphabet) Q.
Proof.
  induction ds as [|d r IH]; intros Q E; cbn [syms_of_digits] in E; [injection E as <-; constructor|].
  destruct (nth_error index_alphabet (N.to_nat d)) as [s|] eqn:En; [|discriminate].
  destruct (syms_of_digits r) as [t|]; cbn [bind] in E; [|discriminate]. injection E as <-.
  constructor; [eapply nth_error_In; exact En|now apply IH].
Qed.

Lemma index_syms_in idx Q : get_selfies_from_index idx = Ok Q -> Forall (fun t => In t index_alphabet) Q.
Proof.
  unfold get_selfies_from_index. destruct (idx <? 0); [discriminate|].
  destruct index_alphabet as [|a0 r] eqn:Ea; [discriminate|]. rewrite <- Ea.
  destruct (Z.to_N idx =? 0)%N; [intro E; injection E as <-; constructor; [rewrite Ea; now left|constructor]|].
  apply syms_of_digits_in.
Qed.

Section Walk.
Variable m : emol.

Lemma out_loop_tokens (walk : ebond -> nat -> nat -> res (list str * list amap)) :
  (forall b ai o ts ms, walk b ai o = Ok (ts, ms) -> Forall (etok m) ts) ->
  forall bonds aidx off ts ms, out_loop m walk bonds aidx off = Ok (ts, ms) -> Forall (etok m) ts.
Proof.
  intro Hw. induction bonds as [|b rest IH]; intros aidx off ts ms E; cbn [out_loop] in E; [inversion E; subst; constructor|].
  destruct (e_ring b).
  - destruct (e_src b <? e_dst b)%nat; [exact (IH _ _ _ _ E)|].
    destruct (mg_get_dirbond m (e_dst b) (e_src b)) as [rv|]; cbn [bind] in E; [|discriminate].
    destruct (get_selfies_from_index _) as [Q|] eqn:EQ; cbn [bind] in E; [|discriminate].
    destruct (ring_bonds_to_selfies rv b) as [rs|] eqn:Er; cbn [bind] in E; [|discriminate].
    match type of E with (do _ <- ?X; _) = _ => destruct X as [[ts1 ms1]|] eqn:E1 end; cbn [bind] in E; [|discriminate].
    inversion E; subst; clear E. constructor; [eapply et_ring; exact Er|]. apply Forall_app. split; [|exact (IH _ _ _ _ E1)].
    eapply Forall_impl; [|exact (index_syms_in _ _ EQ)]. intros t Ht. now apply et_index.
  - destruct rest as [|b2 rest2]; [exact (Hw _ _ _ _ _ E)|].
    destruct (walk b off 0%nat) as [[branch bmaps]|] eqn:Eb; cbn [bind] in E; [|discriminate].
    destruct (get_selfies_from_index _) as [Q|] eqn:EQ; cbn [bind] in E; [|discriminate].
    destruct (bond_to_selfies b false) as [bs|] eqn:Ebs; cbn [bind] in E; [|discriminate].
    match type of E with (do _ <- ?X; _) = _ => destruct X as [[ts1 ms1]|] eqn:E1 end; cbn [bind] in E; [|discriminate].
    inversion E; subst; clear E. constructor; [eapply et_branch; exact Ebs|]. apply Forall_app. split.
    + eapply Forall_impl; [|exact (index_syms_in _ _ EQ)]. intros t Ht. now apply et_index.
    + apply Forall_app. split; [exact (Hw _ _ _ _ _ Eb)|exact (IH _ _ _ _ E1)].
Qed.

Lemma walk_tokens : forall fuel b curr aidx off ts ms, fragment_walk fuel m b curr aidx off = Ok (ts, ms) -> Forall (etok m) ts.
Proof.
  induction fuel as [|f IH]; intros b curr aidx off ts ms E; [discriminate|]. cbn [fragment_walk] in E.
  destruct (mg_get_atom m curr) as [[a at_]|] eqn:Ea; cbn [bind fst snd] in E; [|discriminate].
  destruct (atom_to_selfies b a) as [tok|] eqn:Et; cbn [bind fst] in E; [|discriminate].
  destruct (mg_get_out_dirbonds m curr) as [raw|]; cbn [bind] in E; [|discriminate].
  destruct (all_some raw) as [bonds|]; cbn [bind] in E; [|discriminate].
  match type of E with (do _ <- ?X; _) = _ => destruct X as [[ts1 ms1]|] eqn:E1 end; cbn [bind] in E; [|discriminate].
  inversion E; subst; clear E. constructor; [eapply et_atom; eassumption|].
  eapply out_loop_tokens; [|exact E1]. intros b0 ai o ts0 ms0 H. exact (IH _ _ _ _ _ _ H).
Qed.
End Walk.

Lemma encode_roots_tokens m : forall roots aidx frags maps, encode_roots m roots aidx = Ok (frags, maps) ->
  exists tss, frags = map (@concat N) tss /\ Forall (Forall (etok m)) tss /\ length tss = length roots.
Proof.
  induction roots as [|r rest IH]; intros aidx frags maps E; cbn [encode_roots] in E.
  - inversion E; subst. exists []. repeat split; constructor.
  - destruct (fragment_to_selfies m r aidx) as [[derived mp]|] eqn:Ef; cbn [bind] in E; [|discriminate].
    destruct (encode_roots m rest _) as [[frags' maps']|] eqn:Er; cbn [bind] in E; [|discriminate]. inversion E; subst; clear E.
    destruct (IH _ _ _ Er) as (tss & -> & F & L). exists (derived :: tss). split; [reflexivity|]. split; [|cbn; lia].
    constructor; [|exact F]. unfold fragment_to_selfies in Ef. exact (walk_tokens m _ _ _ _ _ _ _ Ef).
Qed.
