(* C12 — constraint configuration API: faithful set/get, atomic rejection, no aliasing.
   Model: model/Config.v (bond_constraints.py over an object heap) and
   model/History.v (all finite call histories, caller-side mutation included). *)
From Coq Require Import String List ZArith NArith Bool.
Import ListNotations.
Local Open Scope string_scope.
From Selfies Require Import Base Generated Atoms Config History ConfigFacts.

(* set(t) ; get() returns a dict equal to t *)
Theorem C12_set_then_get : forall w k i d, Inv w ->
  nth_error (w_held w) k = Some i -> hget (l_heap (w_lib w)) i = Some (ODict d) ->
  has_key (lit "?") d = true -> validate_items d = Ok tt ->
  let w1 := fst (step w (OpSet (RHeld k))) in
  snd (step w (OpSet (RHeld k))) = ObsNone /\ current_dict (w_lib w1) = d /\
  snd (step w1 OpGet) = ObsDict d.
Proof. exact set_then_get. Qed.

(* ... and stays so across anything that is not another successful set:
   failed sets, getters, caller mutation of whatever it holds, translations *)
Theorem C12_current_table_stable : forall w o, Inv w -> is_successful_set w o = false ->
  current_dict (w_lib (fst (step w o))) = current_dict (w_lib w).
Proof. exact step_keeps_current. Qed.

(* the invariant holds in every reachable world *)
Theorem C12_invariant_reachable : forall ops, Inv (fst (run init_world ops)).
Proof. intro ops. exact (run_inv ops init_world inv_init). Qed.

(* no dict owned by the library (presets, current table) is ever in the caller's hands:
   mutating anything returned or passed cannot reach them *)
Theorem C12_no_dict_aliasing : forall ops i,
  In i (w_held (fst (run init_world ops))) -> ~ In i (lib_dicts (w_lib (fst (run init_world ops)))).
Proof. exact separation_of_dicts. Qed.

(* presets never change *)
Theorem C12_presets_never_change : forall ops name,
  let st := w_lib (fst (run init_world ops)) in
  match assoc name (l_presets st) with
  | Some i => hget (l_heap st) i = option_map (fun t => ODict (dict_of_table t)) (assoc name preset_constraints)
  | None => assoc name preset_constraints = None
  end.
Proof. exact presets_never_change. Qed.

(* a rejected update leaves the whole world exactly as before, and these are rejected *)
Theorem C12_rejection_atomic : forall w r e, snd (step w (OpSet r)) = ObsErr e -> fst (step w (OpSet r)) = w.
Proof. exact rejected_set_is_atomic. Qed.
Theorem C12_rejections : forall st,
  (forall name, assoc name (l_presets st) = None -> set_semantic_constraints st (ArgName name) = Err ValueError) /\
  set_semantic_constraints st ArgJunk = Err ValueError /\
  (forall i d, hget (l_heap st) i = Some (ODict d) -> has_key (lit "?") d = false ->
     set_semantic_constraints st (ArgObj i) = Err ValueError) /\
  (forall i d e, hget (l_heap st) i = Some (ODict d) -> has_key (lit "?") d = true -> validate_items d = Err e ->
     set_semantic_constraints st (ArgObj i) = Err e) /\
  (forall i s, hget (l_heap st) i = Some (OSet s) -> set_semantic_constraints st (ArgObj i) = Err ValueError).
Proof. exact set_rejections. Qed.

(* the full "no aliasing" statement is FALSE of the faithful model: the alphabet
   set handed out is the cached object (known finding F-C12-alphabet-alias) *)
Theorem C12_alphabet_alias_refuted : ~ full_separation.
Proof. exact alphabet_alias_refuted. Qed.
Theorem C12_alphabet_alias_observable :
  let ops := [OpGetAlphabet; OpMutate 0 (MAdd (lit "[BOGUS]")); OpGetAlphabet] in
  match snd (run init_world ops) with
  | [ObsSet a; _; ObsSet b] => mem_str (lit "[BOGUS]") a = false /\ mem_str (lit "[BOGUS]") b = true
  | _ => False
  end.
Proof. exact alphabet_alias_observable. Qed.

Print Assumptions C12_set_then_get.
Print Assumptions C12_current_table_stable.
Print Assumptions C12_invariant_reachable.
Print Assumptions C12_no_dict_aliasing.
Print Assumptions C12_presets_never_change.
Print Assumptions C12_rejection_atomic.
Print Assumptions C12_rejections.
Print Assumptions C12_alphabet_alias_refuted.
Print Assumptions C12_alphabet_alias_observable.
