(* C02 — the decoder implements the published derivation grammar.
   Reference semantics: spec/DocGrammar.v (grammar_eval) read against the
   decoder's output by spec/Reader.v.  Proved so far (partial): every rule's
   arithmetic and every symbol table of the code equals the documented one;
   for all strings: what the independent reader reads from the decoder's output IS the decoder's
   graph (atoms with their fields in written order, bonded pairs with orders and marks, neighbour
   order = parent, then the entries of the row); every rejection is a DecoderError; strings whose
   symbols are all in the grammar (and whose brackets are closed) are accepted; a reached symbol
   outside the grammar is rejected.  Not a theorem: graph = documented derivation (grammar_eval),
   validated per input by the extracted spec on this run (bounded-exhaustive + sampled). *)
From Coq Require Import String List ZArith NArith Bool.
Import ListNotations.
From Selfies Require Import Base Generated Lex Atoms Grammar Decoder StateFacts IndexSpec IndexCode Reader DocGrammar DecoderBasics
  CompatFacts DecoderInv DecoderTree DecoderSum TokFacts DeriveOk WriterSim WriterFinal RingCount CompatTotal WfSpec NopFacts DocFinal DocAccept Hanging.
Local Open Scope string_scope.
Local Open Scope Z_scope.

Definition C02_full_statement : Prop :=
  forall (T : table) (toks : list str) (out : str) (m : smol),
    grammar_eval T toks = Ok m ->
    decoder_str T (concat toks) false = Ok out -> read_smiles out = Some m.

(* atom rule: mu = min(beta, alpha, i), next state alpha - mu (terminal when 0) *)
Theorem C02_atom_rule_partial : forall beta alpha i mu ns,
  next_atom_state beta alpha i = (mu, ns) -> 1 <= beta -> 0 <= alpha -> 0 <= i ->
  mu = Z.min (Z.min beta alpha) i /\
  match ns with None => alpha - mu = 0 | Some k => k = alpha - mu /\ 0 < k end.
Proof. intros. destruct (nas_spec _ _ _ _ _ H H0 H1 H2) as (A & _ & _ & _ & _ & _ & B). auto. Qed.

(* branch rule: n = min(i - 1, M), j = i - n *)
Theorem C02_branch_rule_partial : forall M i n j,
  next_branch_state M i = (n, j) -> next_branch_state_pre M i = true ->
  n = Z.min (i - 1) M /\ j = i - n.
Proof. intros. destruct (nbs_spec _ _ _ _ H H0) as (A & B & _). auto. Qed.

(* ring rule: order min(ring order, i), state lowered by it *)
Theorem C02_ring_rule_partial : forall o i order ns,
  next_ring_state o i = (order, ns) -> next_ring_state_pre o i = true -> 1 <= o ->
  order = Z.min o i /\ match ns with None => i - order = 0 | Some k => k = i - order /\ 0 < k end.
Proof. intros. destruct (nrs_spec _ _ _ _ H H0 H1) as (A & _ & _ & _ & B). auto. Qed.

(* symbol tables of the code = documented symbol sets (orders, number of index symbols, marks) *)
Theorem C02_branch_symbols_partial :
  map (fun kv => (fst kv, fst (snd kv))) branch_cache = branch_symbols /\
  forallb (fun kv => Nat.eqb (snd (snd kv)) (ring_len (fst kv))) branch_cache = true.
Proof. exact branch_table_documented. Qed.
Theorem C02_ring_symbols_partial :
  map (fun kv => (fst kv, (fst (fst (snd kv)), fst (snd (snd kv)), snd (snd (snd kv))))) ring_cache = ring_symbols /\
  forallb (fun kv => Nat.eqb (snd (fst (snd kv))) (ring_len (fst kv))) ring_cache = true.
Proof. exact ring_table_documented. Qed.

(* index symbols: base-16 value, all other / missing symbols 0 *)
Theorem C02_index_code_partial : forall syms : list (option str),
  get_index_from_selfies syms = doc_value (map doc_digit syms).
Proof. exact get_index_is_base16. Qed.


(* the molecule denoted by the output is the decoder's graph: either flag, hypotheses on the input string alone
   (symbols within the int() digit limit, fewer than 100 ring symbols) *)
Theorem C02_output_denotes_graph_partial : forall T s compat attribute out maps,
  (exists c, assoc (lit "?") T = Some c) -> symbols_short s -> (ring_symbol_count s compat < 100)%nat ->
  decoder T s compat attribute = Ok (out, maps) ->
  exists m ord, decode_graph T s compat attribute = Ok m /\ NoDup ord /\ (forall j, In j ord <-> (j < natoms m)%nat) /\
    read_smiles out = Some {| sm_atoms := map (aat m) ord; sm_nbrs := map (frow m ord) ord |}.
Proof.
  intros T s compat attribute out maps Hq Hs Hr E.
  pose proof (frags_ok_of_symbols s compat Hs) as Hd.
  unfold decoder, decoder_c in E. change (decode_graph_c (get_bonding_capacity T) s compat attribute) with (decode_graph T s compat attribute) in E.
  destruct (decode_graph T s compat attribute) as [m|] eqn:Eg; cbn [bind] in E; [|discriminate].
  destruct (decode_graph_ok2 T s compat attribute m Hq Hd Eg) as [HG HT].
  assert (Hr' : (length (ring_pairs m) < 100)%nat).
  { apply Nat.le_lt_trans with (ring_symbol_count s compat); [|exact Hr]. exact (ring_pairs_le_symbols (get_bonding_capacity T) s compat attribute m Eg). }
  destruct (printed_reads T m HG HT Hr' out maps E) as (ord & A & B & C). exists m, ord. auto.
Qed.

(* ---------- the property itself ----------
   For every table with '?', every well-formed string (fragments of bracketed symbols joined by single dots) whose
   symbols are within the interpreter's int() digit limit and which has fewer than 100 ring symbols: if the decoder
   returns a string, then the documented derivation (spec/DocGrammar.v, written from docs/source/derivation.rst
   independently of decoder.py) assigns a molecule g to the same symbols, and the molecule the independent reader
   reads from the decoder's output is exactly g: atoms in derivation order with all their fields, neighbour lists in
   written order with bond orders, cis/trans marks and ring flags. *)
Theorem C02_decoder_refines_grammar : forall T (frs : list (list item)) attribute out maps,
  (exists c, assoc (lit "?") T = Some c) -> frs <> [] -> Forall wfd frs ->
  symbols_short (render_frags frs) -> (ring_symbol_count (render_frags frs) false < 100)%nat ->
  decoder T (render_frags frs) false attribute = Ok (out, maps) ->
  exists g, grammar_eval T (dtoks frs) = Ok g /\ read_smiles out = Some g.
Proof. exact decoder_refines_grammar_exact. Qed.

(* "atoms in derivation order": the writer visits the atoms of a decoded graph in the order in which the derivation
   created them (proofs/Preorder.v: the emission order of every decoded graph is 0, 1, 2, ...), so the molecule read
   from the output is g itself, not merely g up to a renumbering.  The weaker form, with the permutation explicit: *)
Theorem C02_decoder_refines_grammar_up_to_order : forall T (frs : list (list item)) attribute out maps,
  (exists c, assoc (lit "?") T = Some c) -> frs <> [] -> Forall wfd frs ->
  symbols_short (render_frags frs) -> (ring_symbol_count (render_frags frs) false < 100)%nat ->
  decoder T (render_frags frs) false attribute = Ok (out, maps) ->
  exists g ord, grammar_eval T (dtoks frs) = Ok g /\ NoDup ord /\ (forall j, In j ord <-> (j < length (sm_atoms g))%nat) /\
                read_smiles out = Some (relabel ord g).
Proof. exact decoder_refines_grammar. Qed.

(* "The string is rejected ... exactly when the derivation reaches a symbol outside the grammar": for well-formed
   strings (no unclosed bracket) the decoder accepts exactly the strings the documented derivation accepts, and a
   string the decoder rejects is rejected by the documented derivation (whose only rejection is a reached symbol
   that is not a symbol of the grammar under the table). No bound on rings is needed here. *)
Theorem C02_rejected_exactly_when : forall T (frs : list (list item)) attribute,
  (exists c, assoc (lit "?") T = Some c) -> frs <> [] -> Forall wfd frs -> symbols_short (render_frags frs) ->
  ((exists out, decoder T (render_frags frs) false attribute = Ok out) <-> (exists g, grammar_eval T (dtoks frs) = Ok g)).
Proof. exact decoder_accepts_iff_grammar. Qed.

Theorem C02_rejection_refines_grammar : forall T (frs : list (list item)) attribute e,
  (exists c, assoc (lit "?") T = Some c) -> frs <> [] -> Forall wfd frs -> symbols_short (render_frags frs) ->
  decoder T (render_frags frs) false attribute = Err e -> e = DecoderError /\ exists e', grammar_eval T (dtoks frs) = Err e'.
Proof.
  intros T frs attribute e Hq Hne Hwf Hs E. split; [|exact (decoder_reject_grammar T frs attribute e Hq Hne Hwf Hs E)].
  destruct (decoder_total_ok_c T (render_frags frs) false attribute Hq (frags_ok_of_symbols _ false Hs)) as [[o Ho]|Hd]; congruence.
Qed.

(* "... or the string has an unclosed bracket": whatever else the string contains, a fragment whose symbols do not end
   with a closed bracket makes the decoder raise DecoderError *)
Theorem C02_unclosed_bracket_rejected : forall T s attribute,
  (exists c, assoc (lit "?") T = Some c) -> symbols_short s -> unclosed s ->
  decoder T s false attribute = Err DecoderError.
Proof. intros T s attribute Hq Hs Hu. apply unclosed_rejected; [exact Hq|now apply digits_ok_of_symbols|exact Hu]. Qed.

Example C02_unclosed_example : unclosed (lit "[C][=O].[N][C") /\ unclosed (lit "[C][O]C").
Proof. split; [exists (lit "[N][C")|exists (lit "[C][O]C")]; split; vm_compute; auto. Qed.

(* non-vacuity of the rejection side: a string with a symbol outside the grammar in a reached position *)
Example C02_rejection_example :
  let frs := [[(lit "C", false); (lit "=C", false); (lit "Xx", false); (lit "O", false)]] in
  Forall wfd frs /\ decoder default_constraints (render_frags frs) false false = Err DecoderError /\
  grammar_eval default_constraints (dtoks frs) = Err DecoderError.
Proof. split; [repeat constructor|split; vm_compute; reflexivity]. Qed.

(* non-vacuity: a two-fragment string with a branch, rings, a clipped bond and a [nop] *)
Example C02_refines_example :
  let frs := [[(lit "C", false); (lit "=C", false); (lit "Branch1", false); (lit "C", false); (lit "=O", false); (lit "nop", false);
               (lit "C", false); (lit "=C", false); (lit "Ring1", false); (lit "Branch1", false); (lit "#N", false)];
              [(lit "13CH2-1", false); (lit "Ring1", false); (lit "C", false)]] in
  Forall wfd frs /\
  (exists out maps, decoder default_constraints (render_frags frs) false true = Ok (out, maps)) /\
  (exists g, grammar_eval default_constraints (dtoks frs) = Ok g /\ length (sm_atoms g) = 7%nat).
Proof.
  split; [|split].
  - repeat constructor.
  - eexists. eexists. vm_compute. reflexivity.
  - eexists. split; vm_compute; reflexivity.
Qed.

(* every rejection is a DecoderError ... *)
Theorem C02_rejection_is_decoder_error_partial : forall T s compat attribute e,
  (exists c, assoc (lit "?") T = Some c) -> symbols_short s ->
  decoder T s compat attribute = Err e -> e = DecoderError.
Proof.
  intros T s compat attribute e Hq Hs E.
  destruct (decoder_total_ok_c T s compat attribute Hq (frags_ok_of_symbols s compat Hs)) as [[o Ho]|Hd]; congruence.
Qed.

(* ... strings made of symbols of the grammar, brackets closed, are never rejected ... *)
Theorem C02_grammar_strings_accepted_partial : forall T s compat attribute,
  (exists c, assoc (lit "?") T = Some c) -> Forall (frag_good T) (tokenize_all s compat) ->
  exists out, decoder T s compat attribute = Ok out.
Proof. intros T s compat attribute Hq H. exact (decoder_ok T Hq s compat attribute H). Qed.

(* ... and a reached symbol outside the grammar is *)
Theorem C02_reached_unknown_symbol_rejected_partial :
  forall T bad aidx fuel idx sym rest m maxd state prev rings astack nd,
  outside_grammar sym = true -> below nd maxd = true ->
  derive T bad aidx (S fuel) ((idx, sym) :: rest) m maxd state prev rings astack nd = Err DecoderError.
Proof. exact derive_rejects. Qed.

Print Assumptions C02_atom_rule_partial.
Print Assumptions C02_output_denotes_graph_partial.
Print Assumptions C02_decoder_refines_grammar.
Print Assumptions C02_decoder_refines_grammar_up_to_order.
Print Assumptions C02_rejected_exactly_when.
Print Assumptions C02_rejection_refines_grammar.
Print Assumptions C02_unclosed_bracket_rejected.
Print Assumptions C02_rejection_is_decoder_error_partial.
Print Assumptions C02_grammar_strings_accepted_partial.
Print Assumptions C02_reached_unknown_symbol_rejected_partial.
Print Assumptions C02_branch_rule_partial.
Print Assumptions C02_ring_rule_partial.
Print Assumptions C02_branch_symbols_partial.
Print Assumptions C02_ring_symbols_partial.
Print Assumptions C02_index_code_partial.
