(* C02 — the decoder implements the published derivation grammar.
   Reference semantics: spec/DocGrammar.v (grammar_eval) read against the
   decoder's output by spec/Reader.v.  Proved so far (partial): every rule's
   arithmetic and every symbol table of the code equals the documented one;
   the refinement theorem decode = grammar_eval is validated per input by the
   extracted spec on this run (see evidence) and is the next proof stage. *)
From Coq Require Import List ZArith NArith Bool.
Import ListNotations.
From Selfies Require Import Base Generated Atoms Grammar Decoder StateFacts IndexSpec IndexCode Reader DocGrammar DecoderBasics.
Local Open Scope Z_scope.

Definition C02_full_statement : Prop :=
  forall (T : table) (toks : list str) (out : str) (m : smol),
    grammar_eval T toks = Ok m ->
    decoder_str T (concat toks) false = Ok out -> read_smiles out = Some m.

(* atom rule: mu = min(beta, alpha, i), next state alpha - mu (terminal when 0) *)
Theorem C02_atom_rule_partial : forall beta alpha i mu ns,
  next_atom_state beta alpha i = (mu, ns) -> 1 <= beta -> 0 <= alpha -> 0 <= i ->
  mu = Z.min (Z.min beta alpha) i /\
  match ns with None => alpha - mu = 0 | Some k => k = alpha - mu /\ 0 < k end.
Proof. intros. destruct (nas_spec _ _ _ _ _ H H0 H1 H2) as (A & _ & _ & _ & _ & _ & B). auto. Qed.

(* branch rule: n = min(i - 1, M), j = i - n *)
Theorem C02_branch_rule_partial : forall M i n j,
  next_branch_state M i = (n, j) -> next_branch_state_pre M i = true ->
  n = Z.min (i - 1) M /\ j = i - n.
Proof. intros. destruct (nbs_spec _ _ _ _ H H0) as (A & B & _). auto. Qed.

(* ring rule: order min(ring order, i), state lowered by it *)
Theorem C02_ring_rule_partial : forall o i order ns,
  next_ring_state o i = (order, ns) -> next_ring_state_pre o i = true -> 1 <= o ->
  order = Z.min o i /\ match ns with None => i - order = 0 | Some k => k = i - order /\ 0 < k end.
Proof. intros. destruct (nrs_spec _ _ _ _ H H0 H1) as (A & _ & _ & _ & B). auto. Qed.

(* symbol tables of the code = documented symbol sets (orders, number of index symbols, marks) *)
Theorem C02_branch_symbols_partial :
  map (fun kv => (fst kv, fst (snd kv))) branch_cache = branch_symbols /\
  forallb (fun kv => Nat.eqb (snd (snd kv)) (ring_len (fst kv))) branch_cache = true.
Proof. exact branch_table_documented. Qed.
Theorem C02_ring_symbols_partial :
  map (fun kv => (fst kv, (fst (fst (snd kv)), fst (snd (snd kv)), snd (snd (snd kv))))) ring_cache = ring_symbols /\
  forallb (fun kv => Nat.eqb (snd (fst (snd kv))) (ring_len (fst kv))) ring_cache = true.
Proof. exact ring_table_documented. Qed.

(* index symbols: base-16 value, all other / missing symbols 0 *)
Theorem C02_index_code_partial : forall syms : list (option str),
  get_index_from_selfies syms = doc_value (map doc_digit syms).
Proof. exact get_index_is_base16. Qed.

Print Assumptions C02_atom_rule_partial.
Print Assumptions C02_branch_rule_partial.
Print Assumptions C02_ring_rule_partial.
Print Assumptions C02_branch_symbols_partial.
Print Assumptions C02_ring_symbols_partial.
Print Assumptions C02_index_code_partial.
