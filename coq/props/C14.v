(* C14 — Tokenisation utilities agree with each other (and with the translators).
   Well-formed strings = WfSpec.render of item lists (bracketed symbols whose
   text has no bracket / dot, each optionally followed by one dot). *)
From Coq Require Import List NArith.
Import ListNotations.
From Selfies Require Import Base Lex WfSpec LexFacts.

(* split_selfies yields exactly the symbols and dots, in order, and does not raise *)
Theorem C14_split_yields_tokens : forall l, wf l -> split_selfies (render l) = (tokens l, false).
Proof. exact split_wf. Qed.

(* their concatenation is the original string *)
Theorem C14_concat_is_identity : forall l, wf l ->
  concat (fst (split_selfies (render l))) = render l /\ snd (split_selfies (render l)) = false.
Proof. exact split_concat_identity. Qed.

(* len_selfies = number of items yielded *)
Theorem C14_len_is_items_yielded : forall l, wf l ->
  len_selfies (render l) = length (fst (split_selfies (render l))).
Proof. exact len_equals_items_yielded. Qed.

(* get_alphabet_from_selfies = set of symbols occurring, without the dot *)
Theorem C14_alphabet_is_symbol_set : forall ls, Forall wf ls ->
  exists out, get_alphabet_from_selfies (map render ls) = Ok out /\ NoDup out /\
    forall y, In y out <-> exists l, In l ls /\ In y (symbols l).
Proof. exact alphabet_wf. Qed.

(* the executable recogniser used as oracle on implementation outputs decides
   membership in the language *)
Theorem C14_recogniser_sound : forall s l, wf_parse s = Some l -> render l = s /\ wf l.
Proof. exact wf_parse_sound. Qed.
Theorem C14_recogniser_complete : forall l, wf l -> wf_parse (render l) = Some l.
Proof. exact wf_parse_complete. Qed.

Print Assumptions C14_split_yields_tokens.
Print Assumptions C14_concat_is_identity.
Print Assumptions C14_len_is_items_yielded.
Print Assumptions C14_alphabet_is_symbol_set.
Print Assumptions C14_recogniser_sound.
Print Assumptions C14_recogniser_complete.
