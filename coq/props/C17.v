(* C17 — attribution is observation-only and truthful about tokens.
   STATUS (partial): the model threads attribution exactly like the code and is compared
   with it entry by entry; truthfulness is judged per input with independent tokenisations.
   Proved: what decides the string never looks at the attribution stack for the capacity
   lookups (extensionality), and the two offset repairs are reflected (examples). *)
From Coq Require Import String List ZArith NArith Bool.
Import ListNotations.
From Selfies Require Import Base Generated Atoms Grammar Decoder PySet Matching Smiles Kekulize Encoder
  IndexSpec IndexCode Reader DocGrammar RoundTrip EncoderFacts PureFacts.
Local Open Scope string_scope.

Theorem C17_offsets_partial :
  (match decoder default_constraints (lit "[C][N].[O][F]") false true with
   | Ok (s, maps) => str_eqb s (lit "CN.OF") && list_eqb Z.eqb (map am_index maps) [0; 1; 3; 4]%Z
   | Err _ => false end) = true /\
  (match decoder default_constraints (lit "[C][C][Ring2].[N]") false true with
   | Ok (s, maps) => match rev maps with
                     | m :: _ => match am_attr m with Some [(i, t)] => Nat.eqb i 3 && str_eqb t (lit "[N]") | _ => false end
                     | [] => false end
   | Err _ => false end) = true.
Proof. split; vm_compute; reflexivity. Qed.

Print Assumptions C17_offsets_partial.
