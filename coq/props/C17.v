(* C17 — attribution is observation-only and truthful about tokens.
   Proved for the DECODER, all strings / tables / flags, no side condition (proofs/AttrFacts.v):
   decoder(x, attribute=False) is decoder(x, attribute=True) with the attribution erased - same
   outcome (value or exception class), same string, same output indices and tokens.
   Not theorems (judged per input on every run): the same for the encoder, and truthfulness of the
   entries (independent tokenisations in the harness; exact lists compared with the model). *)
From Coq Require Import String List ZArith NArith Bool.
Import ListNotations.
From Selfies Require Import Base Generated Atoms Grammar Decoder PySet Matching Smiles Kekulize Encoder
  IndexSpec IndexCode Reader DocGrammar RoundTrip EncoderFacts PureFacts AttrFacts.
Local Open Scope string_scope.

Theorem C17_offsets_partial :
  (match decoder default_constraints (lit "[C][N].[O][F]") false true with
   | Ok (s, maps) => str_eqb s (lit "CN.OF") && list_eqb Z.eqb (map am_index maps) [0; 1; 3; 4]%Z
   | Err _ => false end) = true /\
  (match decoder default_constraints (lit "[C][C][Ring2].[N]") false true with
   | Ok (s, maps) => match rev maps with
                     | m :: _ => match am_attr m with Some [(i, t)] => Nat.eqb i 3 && str_eqb t (lit "[N]") | _ => false end
                     | [] => false end
   | Err _ => false end) = true.
Proof. split; vm_compute; reflexivity. Qed.


(* observation-only, decoder side: for every table (indeed every capacity lookup), string and flag *)
Theorem C17_decoder_observation_only_partial : forall T s compat,
  decoder T s compat false = map_res strip_result (decoder T s compat true).
Proof. intros T s compat. exact (decoder_attribute_observation_only (get_bonding_capacity T) s compat). Qed.

Corollary C17_decoder_same_string : forall T s compat out maps,
  decoder T s compat true = Ok (out, maps) ->
  decoder T s compat false = Ok (out, map strip_amap maps) /\ decoder_str T s compat = Ok out.
Proof.
  intros T s compat out maps E. pose proof (C17_decoder_observation_only_partial T s compat) as H. rewrite E in H.
  split; [exact H|]. unfold decoder_str. rewrite H. reflexivity.
Qed.

Corollary C17_decoder_same_error : forall T s compat e,
  decoder T s compat true = Err e <-> decoder T s compat false = Err e.
Proof.
  intros T s compat e. pose proof (C17_decoder_observation_only_partial T s compat) as H.
  destruct (decoder T s compat true) as [[o mp]|e']; cbn in H; rewrite H; split; intro X; congruence.
Qed.

(* non-vacuity: an attributed decode with branches and a ring *)
Example C17_example :
  match decoder default_constraints (lit "[C][=C][Branch1][C][O][C][Ring1][Branch1]") false true with
  | Ok (s, maps) => (3 <=? length maps)%nat && existsb (fun m => match am_attr m with Some (_ :: _ :: _) => true | _ => false end) maps
  | Err _ => false end = true.
Proof. vm_compute. reflexivity. Qed.

Print Assumptions C17_offsets_partial.
Print Assumptions C17_decoder_observation_only_partial.
Print Assumptions C17_decoder_same_string.
Print Assumptions C17_decoder_same_error.
