(* C17 — attribution is observation-only and truthful about tokens.
   Proved for the DECODER, all strings / tables / flags, no side condition (proofs/AttrFacts.v):
   decoder(x, attribute=False) is decoder(x, attribute=True) with the attribution erased - same
   outcome (value or exception class), same string, same output indices and tokens.
   Truthfulness of the decoder's entries is a theorem too (C17_decoder_attribution_truthful).
   Proved for the ENCODER as well, all SMILES / tables / strict (proofs/EncErase.v): erasing the attribution of
   the graph commutes with every operation of the reader, of kekulize, of the strict check, of the inversion pass and
   of the emitting walk, so encoder(s, attribute=False) is encoder(s, attribute=True) with the attribution erased -
   same outcome, same string, same indices and tokens (C17_encoder_attribute_erased, C17_encoder_same_string).
   ... and TRUTHFUL (proofs/EncAttr.v, C17_encoder_attribution_truthful): the reader stores with the k-th atom of the
   graph the pair (position, text) of the k-th atom token of the input, from whose text that atom was read (a bond
   character counts as a position of its own, '.' is not counted); kekulize and the inversion pass keep the pair (they
   change the aromatic flag and the chirality tag only); and in the walk that emits the output every atom symbol is
   printed from one atom of that graph and carries exactly that atom's pair (inductive description `Walked`: atom
   symbol, then ring symbols / branches, recursively).  Entries of ring, branch and index symbols carry the
   attribution of their bond; the property says nothing about them.  The `index` field of the encoder's entries is
   not covered by the property (it is wrong inside branches: DESIGN 5/C17) and is not part of the theorem. *)
From Coq Require Import String List ZArith NArith Bool.
Import ListNotations.
From Selfies Require Import Base Generated Atoms Grammar Decoder PySet Matching Smiles Kekulize Encoder
  IndexSpec IndexCode Reader DocGrammar RoundTrip EncoderFacts PureFacts AttrFacts AttrOut AttrIn AttrFinal EncErase EncAttr.
Local Open Scope string_scope.

Theorem C17_offsets_partial :
  (match decoder default_constraints (lit "[C][N].[O][F]") false true with
   | Ok (s, maps) => str_eqb s (lit "CN.OF") && list_eqb Z.eqb (map am_index maps) [0; 1; 3; 4]%Z
   | Err _ => false end) = true /\
  (match decoder default_constraints (lit "[C][C][Ring2].[N]") false true with
   | Ok (s, maps) => match rev maps with
                     | m :: _ => match am_attr m with Some [(i, t)] => Nat.eqb i 3 && str_eqb t (lit "[N]") | _ => false end
                     | [] => false end
   | Err _ => false end) = true.
Proof. split; vm_compute; reflexivity. Qed.


(* observation-only, decoder side: for every table (indeed every capacity lookup), string and flag *)
Theorem C17_decoder_observation_only_partial : forall T s compat,
  decoder T s compat false = map_res strip_result (decoder T s compat true).
Proof. intros T s compat. exact (decoder_attribute_observation_only (get_bonding_capacity T) s compat). Qed.

Corollary C17_decoder_same_string : forall T s compat out maps,
  decoder T s compat true = Ok (out, maps) ->
  decoder T s compat false = Ok (out, map strip_amap maps) /\ decoder_str T s compat = Ok out.
Proof.
  intros T s compat out maps E. pose proof (C17_decoder_observation_only_partial T s compat) as H. rewrite E in H.
  split; [exact H|]. unfold decoder_str. rewrite H. reflexivity.
Qed.

Corollary C17_decoder_same_error : forall T s compat e,
  decoder T s compat true = Err e <-> decoder T s compat false = Err e.
Proof.
  intros T s compat e. pose proof (C17_decoder_observation_only_partial T s compat) as H.
  destruct (decoder T s compat true) as [[o mp]|e']; cbn in H; rewrite H; split; intro X; congruence.
Qed.

(* truthfulness, decoder side, for every table, string and flag (proofs/AttrOut.v, AttrIn.v, AttrFinal.v):
   every entry's output token is found in the output string ending at the reported character index; every
   contributing input token is the symbol at the reported position of the input (counting the symbols that take part
   in the derivation: [nop] and '.' are not counted); and every entry is either a bond token or an atom token whose
   attribution is the branch symbols enclosing it followed by the atom symbol that created that atom *)
Theorem C17_decoder_attribution_truthful : forall T s compat attribute out maps,
  decoder T s compat attribute = Ok (out, maps) ->
  forall a, In a maps ->
    ends_at out (am_index a) (am_token a) /\
    match am_attr a with
    | None => True
    | Some l => Forall (fun e => nth_error (input_symbols s compat) (fst e) = Some (snd e)) l
    end /\
    ((exists at_, atom_to_smiles at_ true = Ok (am_token a) /\ atom_attr T (am_attr a) at_) \/
     (exists o st, bond_to_smiles o st = Ok (am_token a))).
Proof. exact decoder_attribution_truthful. Qed.

(* non-vacuity: an attributed decode with branches and a ring *)
Example C17_example :
  match decoder default_constraints (lit "[C][=C][Branch1][C][O][C][Ring1][Branch1]") false true with
  | Ok (s, maps) => (3 <=? length maps)%nat && existsb (fun m => match am_attr m with Some (_ :: _ :: _) => true | _ => false end) maps
  | Err _ => false end = true.
Proof. vm_compute. reflexivity. Qed.

(* the encoder: attribute=False is attribute=True with the attribution erased *)
Theorem C17_encoder_attribute_erased : forall T s strict,
  encoder T s strict false = rmap (fun p => (fst p, map era_map (snd p))) (encoder T s strict true).
Proof. exact encoder_attribute_erased. Qed.

Corollary C17_encoder_same_string : forall T s strict,
  match encoder T s strict true, encoder T s strict false with
  | Ok (x, mx), Ok (y, my) => x = y /\ map am_index mx = map am_index my /\ map am_token mx = map am_token my
  | Err e1, Err e2 => e1 = e2
  | _, _ => False
  end.
Proof.
  intros T s strict. rewrite (encoder_attribute_erased T s strict).
  destruct (encoder T s strict true) as [[x mx]|e]; cbn [rmap fst snd]; [|reflexivity].
  split; [reflexivity|]. rewrite !map_map. split; apply map_ext; reflexivity.
Qed.

(* the encoder's entries are truthful: every SELFIES atom symbol carries the (position, text) of the SMILES atom token
   its atom was read from *)
Theorem C17_encoder_attribution_truthful : forall T smiles strict x maps ts,
  encoder T smiles strict true = Ok (x, maps) -> tokenize_smiles smiles = Ok ts ->
  exists m tss mss,
    Forall2 attributed_to (m_atoms m) (expect ts 0) /\ m_attributable m = true /\
    x = join (lit ".") (map (@concat N) tss) /\
    maps = filter (fun a => match am_token a with [] => false | _ => true end) (concat mss) /\
    Forall2 (fun toks ms => Walked (printed_from m) m toks (map ent ms)) tss mss.
Proof. exact encoder_attribution_truthful. Qed.

(* non-vacuity: a multi-fragment input with bond characters, a ring, a branch and an aromatic ring *)
Example C17_encoder_attribution_example :
  match encoder default_constraints (lit "C=C(/F)c1ccccc1.[Na+]") true true with
  | Ok (_, maps) => map (fun a => (am_token a, am_attr a)) (firstn 3 maps) =
                    [(lit "[C]", Some [(0, lit "C")]); (lit "[=C]", Some [(2, lit "C")]); (lit "[/F]", Some [(5, lit "F")])]%nat
  | Err _ => False end.
Proof. vm_compute. reflexivity. Qed.

Print Assumptions C17_offsets_partial.
Print Assumptions C17_decoder_observation_only_partial.
Print Assumptions C17_decoder_same_string.
Print Assumptions C17_decoder_same_error.
Print Assumptions C17_decoder_attribution_truthful.
Print Assumptions C17_encoder_attribute_erased.
Print Assumptions C17_encoder_same_string.
Print Assumptions C17_encoder_attribution_truthful.
