(* C08 — decoder is total.  (file grows with proofs/DecoderInv.v) *)
From Coq Require Import List ZArith NArith Bool.
Import ListNotations.
From Selfies Require Import Base Generated Atoms Grammar Compat Decoder StateFacts DecoderBasics CompatFacts.
Local Open Scope Z_scope.

(* the assertion inside next_branch_state cannot fire where the decoder calls it *)
Theorem C08_branch_assert_unreachable_partial : forall sym btype n state,
  process_branch_symbol sym = Some (btype, n) -> (state <=? 1) = false ->
  next_branch_state_pre btype state = true.
Proof. exact branch_pre_holds. Qed.

(* nor the one inside next_ring_state *)
Theorem C08_ring_assert_unreachable_partial : forall rtype state, 0 <= state -> (state =? 0) = false ->
  next_ring_state_pre rtype state = true.
Proof. exact ring_pre_holds. Qed.

(* a symbol outside the grammar raises DecoderError (not another class) whenever it is reached *)
Theorem C08_unknown_symbol_is_decoder_error_partial :
  forall T bad aidx fuel idx sym rest m maxd state prev rings astack nd,
  outside_grammar sym = true -> below nd maxd = true ->
  derive T bad aidx (S fuel) ((idx, sym) :: rest) m maxd state prev rings astack nd = Err DecoderError.
Proof. exact derive_rejects. Qed.

Print Assumptions C08_branch_assert_unreachable_partial.
Print Assumptions C08_ring_assert_unreachable_partial.
Print Assumptions C08_unknown_symbol_is_decoder_error_partial.
