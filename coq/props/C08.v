(* C08 — decoder is total: for every accepted table and every string it returns a SMILES or raises
   DecoderError, and the table in force is untouched.  Main theorem proved in proofs/DecoderInv.v. *)
From Coq Require Import String List ZArith NArith Bool.
Import ListNotations.
From Selfies Require Import Base Generated Lex Atoms Grammar Compat Decoder Config History StateFacts DecoderBasics CompatFacts ConfigFacts DecoderInv DecoderSum TokFacts CompatTotal.
Local Open Scope string_scope.
Local Open Scope Z_scope.

(* the assertion inside next_branch_state cannot fire where the decoder calls it *)
Theorem C08_branch_assert_unreachable_partial : forall sym btype n state,
  process_branch_symbol sym = Some (btype, n) -> (state <=? 1) = false ->
  next_branch_state_pre btype state = true.
Proof. exact branch_pre_holds. Qed.

(* nor the one inside next_ring_state *)
Theorem C08_ring_assert_unreachable_partial : forall rtype state, 0 <= state -> (state =? 0) = false ->
  next_ring_state_pre rtype state = true.
Proof. exact ring_pre_holds. Qed.

(* a symbol outside the grammar raises DecoderError (not another class) whenever it is reached *)
Theorem C08_unknown_symbol_is_decoder_error_partial :
  forall T bad aidx fuel idx sym rest m maxd state prev rings astack nd,
  outside_grammar sym = true -> below nd maxd = true ->
  derive T bad aidx (S fuel) ((idx, sym) :: rest) m maxd state prev rings astack nd = Err DecoderError.
Proof. exact derive_rejects. Qed.


(* ---------- the main statement ----------
   T: any table with the '?' key (set_semantic_constraints accepts no other).  s: ANY list of code points.
   [digits_ok s] excludes exactly one thing: an atom symbol on which the interpreter's own int()
   refuses the isotope / H-count / charge digits (more than 4300 of them: known finding F-C08-int-digits);
   the model has no recursion limit, so RecursionError (known finding F-C08-recursion, raised by the
   recursive writer at ~1000 nested atoms) is outside this statement and is recorded as modelled-not-proved.
   compatible=False here; both flags below (C08_decoder_total_short_symbols_any_flag). *)
Theorem C08_decoder_total_partial : forall T s attribute,
  (exists c, assoc (lit "?") T = Some c) -> digits_ok s ->
  (exists out, decoder T s false attribute = Ok out) \/ decoder T s false attribute = Err DecoderError.
Proof. exact decoder_total_ok. Qed.


(* the same with the side condition spelt out: no symbol of s is longer than the interpreter's limit on int()
   digit strings (sys.get_int_max_str_digits(), regenerated on every run: 4300 here; 0 = no limit) *)
Theorem C08_decoder_total_short_symbols : forall T s attribute,
  (exists c, assoc (lit "?") T = Some c) -> symbols_short s ->
  (exists out, decoder T s false attribute = Ok out) \/ decoder T s false attribute = Err DecoderError.
Proof. intros T s attribute Hq Hs. apply decoder_total_ok; [exact Hq|]. now apply digits_ok_of_symbols. Qed.

Corollary C08_decoder_total_short_string : forall T s attribute,
  (exists c, assoc (lit "?") T = Some c) -> (N.of_nat (length s) <= int_max_str_digits)%N ->
  (exists out, decoder T s false attribute = Ok out) \/ decoder T s false attribute = Err DecoderError.
Proof. intros T s attribute Hq Hs. apply decoder_total_ok; [exact Hq|]. apply digits_ok_of_length. now right. Qed.

(* and the limit is sharp: one digit more and int() refuses (the known finding, on the model) *)
Example C08_limit_is_sharp :
  decoder default_constraints (lit "[" ++ repeat 49%N (S (N.to_nat int_max_str_digits)) ++ lit "C]")%list false false = Err ValueError.
Proof. vm_compute. reflexivity. Qed.


(* both flags: whenever the (modernising) tokenizer raises nothing but DecoderError and yields symbols whose digit
   fields int() can read (frags_ok: for compatible=False this is implied by symbols_short, see above), derivation,
   ring pass and writer never raise anything but DecoderError *)
Theorem C08_decoder_total_any_flag_partial : forall T s compat attribute,
  (exists c, assoc (lit "?") T = Some c) -> frags_ok s compat ->
  (exists out, decoder T s compat attribute = Ok out) \/ decoder T s compat attribute = Err DecoderError.
Proof. exact decoder_total_ok_c. Qed.

(* ... and for BOTH flags that condition follows from the same condition on the input string: the legacy front end
   (compatibility.py: table lookup, re-parsing and re-printing of [..expl] atoms) raises nothing but ValueError,
   which the tokenizer turns into DecoderError, and the modern spelling it produces is never longer than the
   legacy one (proofs/CompatTotal.v) *)
Theorem C08_decoder_total_short_symbols_any_flag : forall T s compat attribute,
  (exists c, assoc (lit "?") T = Some c) -> symbols_short s ->
  (exists out, decoder T s compat attribute = Ok out) \/ decoder T s compat attribute = Err DecoderError.
Proof. intros T s compat attribute Hq Hs. apply decoder_total_ok_c; [exact Hq|]. now apply frags_ok_of_symbols. Qed.

Example C08_legacy_example :
  let s := lit "[C][Cexpl][=N+expl][Branch1_2][C][O][C@@Hexpl][F].[Fe++expl][Expl=Ring1][C]" in
  symbols_short s /\ exists out, decoder default_constraints s true false = Ok out.
Proof.
  split.
  - intros frag t Hf Ht. right. vm_compute in Hf.
    repeat (destruct Hf as [<-|Hf]; [vm_compute in Ht; repeat (destruct Ht as [<-|Ht]; [vm_compute; discriminate|]); destruct Ht|]). destruct Hf.
  - eexists. vm_compute. reflexivity.
Qed.

(* digits_ok is not a hidden assumption about "nice" strings: it holds of garbage too *)
Example C08_digits_ok_example :
  digits_ok (lit "[C][=N+1][Branch1][junk][[Ring1].[13CH2-1]]][=C][Ring9][O").
Proof.
  intros frag Hin. vm_compute in Hin.
  repeat (destruct Hin as [<-|Hin]; [repeat constructor; eexists; vm_compute; reflexivity|]).
  destruct Hin.
Qed.

(* the table in force is untouched by a decode, whatever its outcome (history model, proofs/ConfigFacts.v) *)
Theorem C08_table_untouched : forall w x c a, Inv w ->
  current_dict (w_lib (fst (step w (OpDecode x c a)))) = current_dict (w_lib w).
Proof. intros w x c a HI. apply step_keeps_current; [exact HI|reflexivity]. Qed.

Print Assumptions C08_branch_assert_unreachable_partial.
Print Assumptions C08_ring_assert_unreachable_partial.
Print Assumptions C08_unknown_symbol_is_decoder_error_partial.
Print Assumptions C08_decoder_total_partial.
Print Assumptions C08_table_untouched.
Print Assumptions C08_decoder_total_short_symbols.
Print Assumptions C08_decoder_total_short_string.
Print Assumptions C08_decoder_total_any_flag_partial.
Print Assumptions C08_decoder_total_short_symbols_any_flag.
