(* C03 — SMILES -> SELFIES -> SMILES round trip preserves the molecule atom for atom.
   STATUS: the round-trip theorem (C03_full_statement) is NOT proved yet (proof plan: DESIGN.md
   Appendix B).  What decides the property on every run is certified per-input validation:
   the extracted independent reader (spec/Reader.v) reads the input and the implementation's
   decoder(encoder(s)) and the extracted same_molecule (spec/RoundTrip.v) compares them atom
   for atom, over re-spelt and mutated molecules and several tables; the encoder/decoder models
   are compared with the implementation on the same inputs.  Proved here: the index arithmetic
   the round trip rests on, and the ATOM half of the statement at the level of symbols
   (C03_symbols_faithful_partial; proofs/EncAttr.v, EncFaithful.v): for ALL accepted SMILES, tables and
   strict, the k-th atom of the graph is the atom read from the k-th atom token of the input; kekulize and
   the inversion pass change only its aromatic flag / chirality tag; every atom symbol of the output is
   printed from one atom of that graph, and the decoder's own symbol reader reads it back as an atom with
   the same element, isotope, charge and hydrogen count as that input token.  So no atom is altered on its
   way into the SELFIES string.  Not proved: that the decoder's derivation keeps every one of these symbols
   (capacity is always sufficient under strict=True) and rebuilds the same bonds. *)
From Coq Require Import String List ZArith NArith Bool.
Import ListNotations.
From Selfies Require Import Base Generated Atoms Grammar Decoder PySet Matching Smiles Kekulize Encoder
  IndexSpec IndexCode Reader RoundTrip EncoderFacts PureFacts EncHyp EncGood EncAttr EncFaithful EncOrd EncKeep EncRing EncRingOrd.
Local Open Scope string_scope.

Definition C03_full_statement : Prop :=
  forall (T : table) (s x out : str) (m_in m_out : smol),
    encoder T s true false = Ok (x, []) -> decoder_str T x false = Ok out ->
    read_smiles s = Some m_in -> read_smiles out = Some m_out -> same_molecule m_in m_out = true.

(* ring distances and branch lengths below 16^3 survive the Q encoding exactly *)
Theorem C03_index_arithmetic_partial : forall n : N,
  exists syms, get_selfies_from_index (Z.of_N n) = Ok syms /\ get_index_from_selfies (map Some syms) = n.
Proof. exact index_roundtrip. Qed.
Theorem C03_three_symbols_partial : forall n syms,
  get_selfies_from_index (Z.of_N n) = Ok syms -> ((length syms <= 3)%nat <-> (n < 4096)%N).
Proof. exact three_symbols_iff. Qed.

(* the atom half, at the level of symbols: every atom symbol of the output reads back as the input atom it was made from *)
Theorem C03_symbols_faithful_partial : forall T smiles strict x maps ts,
  Qlen (length smiles) -> encoder T smiles strict true = Ok (x, maps) -> tokenize_smiles smiles = Ok ts ->
  exists m tss mss,
    x = join (lit ".") (map (@concat N) tss) /\
    maps = filter (fun a => match am_token a with [] => false | _ => true end) (concat mss) /\
    Forall2 (fun toks ms => Walked (reads_back ts) m toks (map ent ms)) tss mss.
Proof. exact encoder_symbols_faithful. Qed.

(* bond half, chain bonds, at symbol level (proofs/EncOrd.v): the first symbol of a fragment has no bond prefix; for every
   other atom the prefix of its symbol agrees in order with the bond written before the atom's token: an explicit
   '-' '=' '#' '/' '\' is reproduced with the same order; a bond written ':' or left implicit is printed single or double
   (implicit between non-aromatic atoms: single, by the first disjunct).  Through the reader, kekulize (only aromatic
   orders change: C05) and the walk.  Ring-closure bonds are not covered. *)
Theorem C03_chain_bond_orders_faithful_partial : forall T smiles strict attribute x maps ts,
  encoder T smiles strict attribute = Ok (x, maps) -> tokenize_smiles smiles = Ok ts ->
  exists m tss mss,
    x = join (lit ".") (map (@concat N) tss) /\
    maps = filter (fun a => match am_token a with [] => false | _ => true end) (concat mss) /\
    Forall2 (fun toks ms => Walked (order_back (m_roots m) ts) m toks (map ent ms)) tss mss.
Proof. exact encoder_orders_faithful. Qed.

Example C03_chain_bond_orders_example :
  match encoder default_constraints (lit "C=CC#N.c1ccccc1O") true false with
  | Ok (x, _) => str_eqb x (lit "[C][=C][C][#N].[C][=C][C][=C][C][=C][Ring1][=Branch1][O]")
  | Err _ => false end = true.
Proof. vm_compute. reflexivity. Qed.

(* bond half, ring-closure bonds, at symbol level (proofs/EncRing.v): the output has the shape TW (atom symbol, then ring
   symbols with their index symbols, branches, the rest of the chain); every ring symbol is printed for one closing ring
   bond b of the kekulised graph, its index symbols encode the distance src - dst - 1 between the two atoms, its bond
   prefix rs has the order of b (what the decoder's symbol reader computes from rs), and b sits in the slot of a ring
   bond e0 of the reader's graph whose order it has kept - unless e0 was aromatic, in which case b is single or double.
   That e0's order is the one written at the two ring digits of the SMILES is the next theorem. *)
Theorem C03_ring_bond_orders_faithful_partial : forall T smiles strict attribute x maps,
  encoder T smiles strict attribute = Ok (x, maps) ->
  exists m0 m tss, smiles_to_mol smiles attribute = Ok m0 /\ x = join (lit ".") (map (@concat N) tss) /\ Forall (TW (ring_back m0 m)) tss.
Proof. exact encoder_ring_orders. Qed.

(* ring-closure bonds, reader side included (proofs/EncRingOrd.v): the reader stores for a ring bond the order written at a
   pair of ring-digit tokens of the input with the same label - the larger of the two orders written there, or 1.5 when
   both atoms are aromatic and neither digit has a bond character (parsed_ring_ords, an invariant of the token loop
   together with one on the ring log).  Composed with the theorem above: every ring symbol of the output has a bond
   prefix whose order is the one written at such a pair of digits, or single / double when that was aromatic.
   Not covered: that the pair of digits is the pair closing between the same two atoms of the input (the atoms are
   pinned only through the distance encoded in the index symbols, previous theorem). *)
Theorem C03_ring_bond_orders_as_written_partial : forall T smiles strict attribute x maps ts,
  encoder T smiles strict attribute = Ok (x, maps) -> tokenize_smiles smiles = Ok ts ->
  exists tss, x = join (lit ".") (map (@concat N) tss) /\ Forall (TW (ring_written ts)) tss.
Proof. exact encoder_ring_orders_written. Qed.

Example C03_ring_bond_orders_as_written_example :
  match encoder default_constraints (lit "C1CCCCC=1.C#1CCCCCCC1") true false with
  | Ok (x, _) => str_eqb x (lit "[C][C][C][C][C][C][=Ring1][=Branch1].[C][C][C][C][C][C][C][C][#Ring1][Branch2]")
  | Err _ => false end = true.
Proof. vm_compute. reflexivity. Qed.

Print Assumptions C03_index_arithmetic_partial.
Print Assumptions C03_ring_bond_orders_as_written_partial.
Print Assumptions C03_ring_bond_orders_faithful_partial.
Print Assumptions C03_chain_bond_orders_faithful_partial.
Print Assumptions C03_three_symbols_partial.
Print Assumptions C03_symbols_faithful_partial.
