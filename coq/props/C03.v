(* C03 — SMILES -> SELFIES -> SMILES round trip preserves the molecule atom for atom.
   STATUS: the round-trip theorem (C03_full_statement) is NOT proved yet (proof plan: DESIGN.md
   Appendix B).  What decides the property on every run is certified per-input validation:
   the extracted independent reader (spec/Reader.v) reads the input and the implementation's
   decoder(encoder(s)) and the extracted same_molecule (spec/RoundTrip.v) compares them atom
   for atom, over re-spelt and mutated molecules and several tables; the encoder/decoder models
   are compared with the implementation on the same inputs.  Proved here: the index arithmetic
   the round trip rests on. *)
From Coq Require Import String List ZArith NArith Bool.
Import ListNotations.
From Selfies Require Import Base Generated Atoms Grammar Decoder PySet Matching Smiles Kekulize Encoder
  IndexSpec IndexCode Reader RoundTrip EncoderFacts PureFacts.
Local Open Scope string_scope.

Definition C03_full_statement : Prop :=
  forall (T : table) (s x out : str) (m_in m_out : smol),
    encoder T s true false = Ok (x, []) -> decoder_str T x false = Ok out ->
    read_smiles s = Some m_in -> read_smiles out = Some m_out -> same_molecule m_in m_out = true.

(* ring distances and branch lengths below 16^3 survive the Q encoding exactly *)
Theorem C03_index_arithmetic_partial : forall n : N,
  exists syms, get_selfies_from_index (Z.of_N n) = Ok syms /\ get_index_from_selfies (map Some syms) = n.
Proof. exact index_roundtrip. Qed.
Theorem C03_three_symbols_partial : forall n syms,
  get_selfies_from_index (Z.of_N n) = Ok syms -> ((length syms <= 3)%nat <-> (n < 4096)%N).
Proof. exact three_symbols_iff. Qed.

Print Assumptions C03_index_arithmetic_partial.
Print Assumptions C03_three_symbols_partial.
