(* C16 — Index symbols form a base-16 positional code that encoder and decoder share.
   Only statements; every proof is `exact <lemma of proofs/IndexCode.v>`.
   get_selfies_from_index / get_index_from_selfies are the model of
   grammar_rules.py; index_alphabet / index_code are regenerated from
   constants.py on every run (gen/Generated.v). *)
From Coq Require Import List ZArith NArith.
Import ListNotations.
From Selfies Require Import Base Generated Grammar IndexSpec IndexCode.

(* the table in the source is the documented order [C]=0 … [P]=15 *)
Theorem C16_alphabet_is_documented : index_alphabet = documented_index_alphabet.
Proof. exact index_alphabet_documented. Qed.

(* decoder side: any symbol sequence (symbols, foreign symbols, missing = None)
   is read as its big-endian base-16 value, foreign / missing counting 0 *)
Theorem C16_decoder_side_is_base16 : forall syms : list (option str),
  get_index_from_selfies syms = doc_value (map doc_digit syms).
Proof. exact get_index_is_base16. Qed.

Theorem C16_foreign_or_missing_is_zero :
  index_digit None = 0%N /\ forall s, ~ In s index_alphabet -> index_digit (Some s) = 0%N.
Proof. exact missing_or_foreign_is_zero. Qed.

Theorem C16_triple : forall a b c,
  get_index_from_selfies [a; b; c] = (doc_digit a * 256 + doc_digit b * 16 + doc_digit c)%N.
Proof. exact triple_formula. Qed.

(* encoder side, every n : N (unbounded): the answer decodes back to n, uses
   only index symbols, has no leading zero digit, is a single symbol for 0 *)
Theorem C16_roundtrip_and_shape : forall n : N,
  exists syms, get_selfies_from_index (Z.of_N n) = Ok syms /\
    get_index_from_selfies (map Some syms) = n /\
    Forall (fun s => In s index_alphabet) syms /\
    syms <> [] /\
    ((0 < n)%N -> (0 < doc_digit (hd None (map Some syms)))%N) /\
    (n < 16 ^ N.of_nat (length syms))%N /\
    ((0 < n)%N -> (16 ^ N.of_nat (length syms - 1) <= n)%N) /\
    (n = 0%N -> length syms = 1%nat).
Proof. exact from_index_spec. Qed.

Theorem C16_shortest : forall n syms other,
  get_selfies_from_index (Z.of_N n) = Ok syms -> other <> [] ->
  get_index_from_selfies other = n -> (length syms <= length other)%nat.
Proof. exact from_index_shortest. Qed.

Theorem C16_three_symbols_iff_below_4096 : forall n syms,
  get_selfies_from_index (Z.of_N n) = Ok syms -> ((length syms <= 3)%nat <-> (n < 4096)%N).
Proof. exact three_symbols_iff. Qed.

Theorem C16_negative_rejected : forall z, (z < 0)%Z -> get_selfies_from_index z = Err IndexError.
Proof. exact from_index_negative. Qed.

Print Assumptions C16_alphabet_is_documented.
Print Assumptions C16_decoder_side_is_base16.
Print Assumptions C16_foreign_or_missing_is_zero.
Print Assumptions C16_triple.
Print Assumptions C16_roundtrip_and_shape.
Print Assumptions C16_shortest.
Print Assumptions C16_three_symbols_iff_below_4096.
Print Assumptions C16_negative_rejected.
