(* C11 — translation is a pure function of the input and the current constraint table.
   Over ALL finite call histories of model/History.v (set/get/preset/alphabet
   calls valid and rejected, caller mutation of held objects, earlier encodes
   and decodes that fill the memo layers). *)
From Coq Require Import String List ZArith NArith Bool.
Import ListNotations.
Local Open Scope string_scope.
From Selfies Require Import Base Generated Atoms Decoder Encoder Config History ConfigFacts PureFacts Footprint.

(* decoder(x) after any history = the pure decoder on the current table *)
Theorem C11_decode_pure : forall ops x compat attr,
  let w := fst (run init_world ops) in
  snd (step w (OpDecode x compat attr)) = ObsTrans (decoder (current_table (w_lib w)) x compat attr).
Proof. exact pure_after_history. Qed.

Theorem C11_encode_pure : forall ops s strict attr,
  let w := fst (run init_world ops) in
  snd (step w (OpEncode s strict attr)) = ObsTrans (encoder (current_table (w_lib w)) s strict attr).
Proof. exact encode_pure_after_history. Qed.

(* hence: a long history and a fresh interpreter set to the same table agree *)
Theorem C11_same_table_same_result : forall ops1 ops2 x compat attr,
  current_table (w_lib (fst (run init_world ops1))) = current_table (w_lib (fst (run init_world ops2))) ->
  snd (step (fst (run init_world ops1)) (OpDecode x compat attr)) =
  snd (step (fst (run init_world ops2)) (OpDecode x compat attr)).
Proof. exact same_table_same_translation. Qed.

(* encoder(s, strict=False) does not depend on the table or the history at all *)
Theorem C11_nonstrict_encode_history_free : forall ops1 ops2 s attr,
  snd (step (fst (run init_world ops1)) (OpEncode s false attr)) =
  snd (step (fst (run init_world ops2)) (OpEncode s false attr)).
Proof. exact nonstrict_encode_any_history. Qed.
Theorem C11_nonstrict_encode_table_free : forall f g s attribute,
  encoder_c f s false attribute = encoder_c g s false attribute.
Proof. exact nonstrict_encoder_ignores_table. Qed.

(* the memo layer stays coherent with the table in force along every history *)
Theorem C11_memo_coherent : forall ops, Coherent (w_lib (fst (run init_world ops))).
Proof. intro ops. exact (proj2 (run_inv_coherent ops init_world inv_init coherent_init)). Qed.

(* the memo layers and module-level mutable objects found in the CURRENT source are exactly the
   ones the history model carries (a new cache or shared scratch object breaks this equality) *)
Theorem C11_footprint_is_modelled :
  shared_state = modelled_shared_state /\ shared_writers = modelled_writers.
Proof. split; vm_compute; reflexivity. Qed.

Print Assumptions C11_footprint_is_modelled.
Print Assumptions C11_decode_pure.
Print Assumptions C11_encode_pure.
Print Assumptions C11_same_table_same_result.
Print Assumptions C11_nonstrict_encode_history_free.
Print Assumptions C11_nonstrict_encode_table_free.
Print Assumptions C11_memo_coherent.
