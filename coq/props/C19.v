(* C19 — concurrent translation calls give the same results as serial calls.
   PARTIAL BY NATURE: the theorem is about the cache protocol (model/Conc.v): threads
   interleave at the granularity of single cache operations — one lru_cache call, one dict
   get, one dict set — with arbitrary evictions, over memo tables of pure functions.  What
   the model cannot exhibit, and is assumed: that CPython executes each of those operations
   atomically (GIL; dict and functools.lru_cache are thread-safe), and that translation
   touches no other shared mutable object — the latter is CHECKED against the source on
   every run (footprint equality below).  A thread stress run supports, never replaces it. *)
From Coq Require Import String List ZArith NArith Bool.
Import ListNotations.
From Selfies Require Import Base Generated Conc ConcFacts Footprint.

(* the shared mutable state found in the current source is exactly what is modelled *)
Theorem C19_footprint_is_modelled :
  shared_state = modelled_shared_state /\ shared_writers = modelled_writers.
Proof. split; vm_compute; reflexivity. Qed.

(* any number of calls, any interleaving of atomic cache operations, arbitrary evictions:
   the cache stays coherent and every call evaluates to its serial result *)
Theorem C19_any_schedule_equals_serial :
  forall (key val res : Type) (key_eqb : key -> key -> bool),
  (forall a b, key_eqb a b = true -> a = b) ->
  forall (F : key -> val) es m ts, coherent key val F m ->
  coherent key val F (fst (run_schedule key val res key_eqb F m ts es)) /\
  map (pure_of key val res F) (snd (run_schedule key val res key_eqb F m ts es)) = map (pure_of key val res F) ts.
Proof. exact any_schedule_equals_serial. Qed.

Theorem C19_finished_call_has_serial_result :
  forall (key val res : Type) (key_eqb : key -> key -> bool),
  (forall a b, key_eqb a b = true -> a = b) ->
  forall (F : key -> val) es m (ps : list (tprog key val res)) i r, coherent key val F m ->
  nth_error (snd (run_schedule key val res key_eqb F m (map (@Running key val res) ps) es)) i
    = Some (Running key val res (TRet key val res r)) ->
  exists p, nth_error ps i = Some p /\ run_pure key val res F p = r.
Proof. exact finished_call_has_serial_result. Qed.

Print Assumptions C19_footprint_is_modelled.
Print Assumptions C19_any_schedule_equals_serial.
Print Assumptions C19_finished_call_has_serial_result.
