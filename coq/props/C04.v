(* C04 — round trip preserves tetrahedral and double-bond stereochemistry.
   STATUS: certified per-input validation by the extracted same_stereo (spec/RoundTrip.v:
   tag xor parity of the written neighbour order; marks per bond end); the universal theorem
   needs C03's round trip and is not proved.  Proved here: the parity bookkeeping that
   _should_invert_chirality relies on. *)
From Coq Require Import String List ZArith NArith Bool.
Import ListNotations.
From Selfies Require Import Base Generated Atoms Grammar Decoder PySet Matching Smiles Kekulize Encoder
  IndexSpec IndexCode Reader RoundTrip EncoderFacts PureFacts.
Local Open Scope string_scope.

Definition C04_full_statement : Prop :=
  forall (T : table) (s x out : str) (m_in m_out : smol),
    encoder T s true false = Ok (x, []) -> decoder_str T x false = Ok out ->
    read_smiles s = Some m_in -> read_smiles out = Some m_out -> same_stereo m_in m_out = true.

(* exchanging two adjacent out-bonds flips the parity the encoder computes:
   "invert iff the permutation is odd" is well defined *)
Theorem C04_adjacent_swap_flips_parity_partial : forall l1 a b l2, a <> b ->
  Nat.odd (Encoder.inversions (l1 ++ a :: b :: l2)%list) = negb (Nat.odd (Encoder.inversions (l1 ++ b :: a :: l2)%list)).
Proof. exact inversions_swap_adjacent. Qed.

Print Assumptions C04_adjacent_swap_flips_parity_partial.
