(* C04 — round trip preserves tetrahedral and double-bond stereochemistry.
   STATUS: certified per-input validation by the extracted same_stereo (spec/RoundTrip.v:
   tag xor parity of the written neighbour order; marks per bond end); the universal theorem
   needs C03's round trip and is not proved.  Proved here: the parity bookkeeping that
   _should_invert_chirality relies on, and - for ALL accepted SMILES, tables and flags - the '/' '\' marks of CHAIN
   bonds at the level of symbols (C04_chain_marks_faithful_partial; proofs/EncStereo.v): the tree bond into the k-th atom
   stores the mark written before the k-th atom token; kekulize never touches a mark; the atom symbol printed for that
   atom is prefixed with '=' or '#', or - a single bond - with exactly that mark, and smiles_to_bond2 of the prefix (what
   the decoder's symbol reader computes) gives the same mark back.  Marks on ring-closure bonds and tetrahedral tags are
   not covered by this theorem. *)
From Coq Require Import String List ZArith NArith Bool.
Import ListNotations.
From Selfies Require Import Base Generated Atoms Grammar Decoder PySet Matching Smiles Kekulize Encoder
  IndexSpec IndexCode Reader RoundTrip EncoderFacts PureFacts EncAttr EncStereo.
Local Open Scope string_scope.

Definition C04_full_statement : Prop :=
  forall (T : table) (s x out : str) (m_in m_out : smol),
    encoder T s true false = Ok (x, []) -> decoder_str T x false = Ok out ->
    read_smiles s = Some m_in -> read_smiles out = Some m_out -> same_stereo m_in m_out = true.

(* exchanging two adjacent out-bonds flips the parity the encoder computes:
   "invert iff the permutation is odd" is well defined *)
Theorem C04_adjacent_swap_flips_parity_partial : forall l1 a b l2, a <> b ->
  Nat.odd (Encoder.inversions (l1 ++ a :: b :: l2)%list) = negb (Nat.odd (Encoder.inversions (l1 ++ b :: a :: l2)%list)).
Proof. exact inversions_swap_adjacent. Qed.

(* marks of chain bonds survive into the symbols, and are what the decoder's reader gets back from them *)
Theorem C04_chain_marks_faithful_partial : forall T smiles strict attribute x maps ts,
  encoder T smiles strict attribute = Ok (x, maps) -> tokenize_smiles smiles = Ok ts ->
  exists m tss mss,
    x = join (lit ".") (map (@concat N) tss) /\
    maps = filter (fun a => match am_token a with [] => false | _ => true end) (concat mss) /\
    Forall2 (fun toks ms => Walked (mark_back ts) m toks (map ent ms)) tss mss.
Proof. exact encoder_marks_faithful. Qed.

Example C04_chain_marks_example :
  match encoder default_constraints (lit "F/C=C\Cl") true false with
  | Ok (x, _) => str_eqb x (lit "[F][/C][=C][\Cl]")
  | Err _ => false end = true.
Proof. vm_compute. reflexivity. Qed.

Print Assumptions C04_adjacent_swap_flips_parity_partial.
Print Assumptions C04_chain_marks_faithful_partial.
