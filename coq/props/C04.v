(* C04 — round trip preserves tetrahedral and double-bond stereochemistry.
   STATUS: certified per-input validation by the extracted same_stereo (spec/RoundTrip.v:
   tag xor parity of the written neighbour order; marks per bond end); the universal theorem
   needs C03's round trip and is not proved.  Proved here: the parity bookkeeping that
   _should_invert_chirality relies on, and - for ALL accepted SMILES, tables and flags - the '/' '\' marks of CHAIN
   bonds at the level of symbols (C04_chain_marks_faithful_partial; proofs/EncStereo.v): the tree bond into the k-th atom
   stores the mark written before the k-th atom token; kekulize never touches a mark; the atom symbol printed for that
   atom is prefixed with '=' or '#', or - a single bond - with exactly that mark, and smiles_to_bond2 of the prefix (what
   the decoder's symbol reader computes) gives the same mark back.  Marks on ring-closure bonds and tetrahedral tags are
   not covered by this theorem. *)
From Coq Require Import String List ZArith NArith Bool.
Import ListNotations.
From Selfies Require Import Base Generated Atoms Grammar Decoder PySet Matching Smiles Kekulize Encoder
  IndexSpec IndexCode Reader RoundTrip EncoderFacts PureFacts EncAttr EncStereo EncChir EncRing EncRingM EncRingOrd EncRingMk.
Local Open Scope string_scope.

Definition C04_full_statement : Prop :=
  forall (T : table) (s x out : str) (m_in m_out : smol),
    encoder T s true false = Ok (x, []) -> decoder_str T x false = Ok out ->
    read_smiles s = Some m_in -> read_smiles out = Some m_out -> same_stereo m_in m_out = true.

(* exchanging two adjacent out-bonds flips the parity the encoder computes:
   "invert iff the permutation is odd" is well defined *)
Theorem C04_adjacent_swap_flips_parity_partial : forall l1 a b l2, a <> b ->
  Nat.odd (Encoder.inversions (l1 ++ a :: b :: l2)%list) = negb (Nat.odd (Encoder.inversions (l1 ++ b :: a :: l2)%list)).
Proof. exact inversions_swap_adjacent. Qed.

(* marks of chain bonds survive into the symbols, and are what the decoder's reader gets back from them *)
Theorem C04_chain_marks_faithful_partial : forall T smiles strict attribute x maps ts,
  encoder T smiles strict attribute = Ok (x, maps) -> tokenize_smiles smiles = Ok ts ->
  exists m tss mss,
    x = join (lit ".") (map (@concat N) tss) /\
    maps = filter (fun a => match am_token a with [] => false | _ => true end) (concat mss) /\
    Forall2 (fun toks ms => Walked (mark_back ts) m toks (map ent ms)) tss mss.
Proof. exact encoder_marks_faithful. Qed.

(* tetrahedral tags outside rings (proofs/EncChir.v), attribute=True (attribute=False gives the same string: C17): the symbol
   printed for the k-th atom is printed from an atom whose @ / @@ tag is that of the atom read from the k-th atom token
   whenever that atom has no ring bond (its ring flag, set by add_ring_bond only, is false); with ring bonds it is that
   tag or its inverse.  Whether the inversion decided for an atom with ring bonds is the right one is decided per input. *)
Theorem C04_tags_outside_rings_faithful_partial : forall T smiles strict x maps ts,
  encoder T smiles strict true = Ok (x, maps) -> tokenize_smiles smiles = Ok ts ->
  exists m tss mss,
    x = join (lit ".") (map (@concat N) tss) /\
    maps = filter (fun a => match am_token a with [] => false | _ => true end) (concat mss) /\
    Forall2 (fun toks ms => Walked (chir_back (m_ringflags m) ts) m toks (map ent ms)) tss mss.
Proof. exact encoder_tags_faithful. Qed.

(* marks of ring-closure bonds at symbol level (proofs/EncRingM.v): every ring symbol is printed for one closing ring bond b of
   the kekulised graph (rv = the same bond as stored at the opening atom); when b is single and one of the two carries
   a mark, the prefix of the ring symbol is exactly [mark of rv; mark of b] with '-' for a missing one - the form the
   decoder's ring cache reads back as (left mark, right mark) - and both marks are the ones stored in the same slots of
   the reader's graph.  That those are marks written at ring digits of the SMILES is the next theorem. *)
Theorem C04_ring_marks_faithful_partial : forall T smiles strict attribute x maps,
  encoder T smiles strict attribute = Ok (x, maps) ->
  exists m0 m tss, smiles_to_mol smiles attribute = Ok m0 /\ x = join (lit ".") (map (@concat N) tss) /\ Forall (TW (ring_marks m0 m)) tss.
Proof. exact encoder_ring_marks. Qed.

Example C04_ring_marks_example :
  match encoder default_constraints (lit "C/1=C/CCCCCC1") true false with
  | Ok (x, _) => str_eqb x (lit "[C][=C][/C][C][C][C][C][C][/-Ring1][Branch2]")
  | Err _ => false end = true.
Proof. vm_compute. reflexivity. Qed.

(* marks of ring-closure bonds, reader side included (proofs/EncRingOrd.v, proofs/EncRingMk.v): an invariant of the reader's
   token loop (ring_of, with RLog on the ring log) shows that each of the two stored directions of a ring bond carries a
   mark written at one of a pair of ring-digit tokens of the input with the same label, and the order written there;
   composed with the previous theorem: for every ring symbol of the output there are marks sl, sr, each written at a
   ring digit of such a pair, and when the bond is printed single (ob = 2; the written order o0 is then single or the
   aromatic 1.5) and one of the two marks is present, the symbol's prefix is exactly [sl; sr], '-' for a missing one.
   Not covered: at which of the two digits of its pair each mark is written, and that both pairs are the same pair. *)
Theorem C04_ring_marks_as_written_partial : forall T smiles strict attribute x maps ts,
  encoder T smiles strict attribute = Ok (x, maps) -> tokenize_smiles smiles = Ok ts ->
  exists tss, x = join (lit ".") (map (@concat N) tss) /\ Forall (TW (ring_marks_written ts)) tss.
Proof. exact encoder_ring_marks_written. Qed.

Example C04_ring_marks_as_written_example :
  match encoder default_constraints (lit "C1=C/CCCCCC/1.F/C=C/1CCCC\1") true false with
  | Ok (x, _) => str_eqb x (lit "[C][=C][/C][C][C][C][C][C][-/Ring1][Branch2].[F][/C][=C][C][C][C][C][/\Ring1][Branch1]")
  | Err _ => false end = true.
Proof. vm_compute. reflexivity. Qed.

Example C04_tags_example :
  match encoder default_constraints (lit "N[C@@H](C)C(=O)O") true false with
  | Ok (x, _) => str_eqb x (lit "[N][C@@H1][Branch1][C][C][C][=Branch1][C][=O][O]")
  | Err _ => false end = true.
Proof. vm_compute. reflexivity. Qed.

Example C04_chain_marks_example :
  match encoder default_constraints (lit "F/C=C\Cl") true false with
  | Ok (x, _) => str_eqb x (lit "[F][/C][=C][\Cl]")
  | Err _ => false end = true.
Proof. vm_compute. reflexivity. Qed.

Print Assumptions C04_adjacent_swap_flips_parity_partial.
Print Assumptions C04_chain_marks_faithful_partial.
Print Assumptions C04_tags_outside_rings_faithful_partial.
Print Assumptions C04_ring_marks_faithful_partial.
Print Assumptions C04_ring_marks_as_written_partial.
