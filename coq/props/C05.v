(* C05 — aromatic SMILES are kekulised correctly, or rejected, independent of atom order.
   The universal correctness statement about the library's matching routine is FALSE of the
   faithful model (no blossom contraction) and stays visible as a refutation; what is proved
   is the checker that judges every implementation output, so each accepted input is validated
   with a certificate (the matching the implementation chose).  Known findings: F-C05-*.
   Proved for all inputs (proofs/EncArom.v): whenever the reader and kekulize succeed, NO atom of the graph is left
   aromatic - every aromatic atom is a key of the delocalisation subgraph from the moment it is added, keys are never
   removed, and kekulize clears the flag of every key (C05_kekulize_clears_every_aromatic_atom). *)
From Coq Require Import String List ZArith NArith Bool.
Import ListNotations.
From Selfies Require Import Base Generated Atoms Grammar Decoder PySet Matching Smiles Kekulize Encoder
  IndexSpec IndexCode Reader RoundTrip EncoderFacts PureFacts EncArom EncMatch EncKeep EncPi.
Local Open Scope string_scope.

Definition C05_matching_sound_statement : Prop :=
  forall g m, find_perfect_matching g = Ok (Some m) -> is_perfect_matching g m = true.

Theorem C05_matching_sound_refuted :
  exists m, find_perfect_matching blossom_witness = Ok (Some m) /\
            is_perfect_matching blossom_witness m = false /\ graph_has_pm blossom_witness = true.
Proof. exact matching_sound_refuted. Qed.

Theorem C05_statement_refuted : ~ C05_matching_sound_statement.
Proof.
  intro H. destruct matching_sound_refuted as (m & Hm & Hf & _). rewrite (H _ _ Hm) in Hf. discriminate.
Qed.

(* the checker means what it says: an accepted answer is a fixed-point-free involution along edges *)
Theorem C05_checker_sound : forall g m, is_perfect_matching g m = true ->
  length m = length g /\
  forall i, (i < length g)%nat ->
    exists j, nth_error m i = Some (Some j) /\ j <> i /\ In j (nth i g []) /\ nth j m None = Some i.
Proof. exact is_perfect_matching_sound. Qed.

(* the chemistry tables _prune_from_ds reads are the periodic-table values *)
Theorem C05_valence_tables_documented :
  (forall e, assoc e valence_electrons = assoc e doc_valence_electrons) /\
  (forall e, assoc e aromatic_valences = assoc e doc_aromatic_valences).
Proof. exact valence_tables_documented. Qed.

(* whenever kekulize returns a graph, none of its atoms is aromatic any more *)
Theorem C05_kekulize_clears_every_aromatic_atom : forall smiles attributable m0 m1,
  smiles_to_mol smiles attributable = Ok m0 -> kekulize m0 = Ok (Some m1) ->
  Forall (fun p => a_aromatic (fst p) = false) (m_atoms m1).
Proof. intros smiles attributable m0 m1 Ep Ek. exact (kekulize_dearomatizes m0 m1 (parsed_aro _ _ _ Ep) Ek). Qed.

(* the half of "the returned matching is perfect" that IS true of the library's routine, for every graph: whatever
   find_perfect_matching returns has one entry per node, every entry names a partner, and each pair i - m[i] is an edge
   of the graph (in one of the two directions).  What fails (C05_matching_sound_refuted) is that m is an involution. *)
Theorem C05_returned_matching_covers_along_edges_partial : forall g mt, find_perfect_matching g = Ok (Some mt) ->
  (length mt = length g /\
   forall i j, nth_error mt i = Some (Some j) ->
     (exists li, nth_error g i = Some li /\ In j li) \/ (exists lj, nth_error g j = Some lj /\ In i lj)) /\
  forall i, (i < length mt)%nat -> exists j, nth_error mt i = Some (Some j).
Proof. exact perfect_matching_valid. Qed.

Example C05_returned_matching_example :
  match find_perfect_matching [[1; 5]; [0; 2]; [1; 3]; [2; 4]; [3; 5]; [4; 0]]%nat with
  | Ok (Some mt) => Nat.eqb (length mt) 6 && forallb (fun o => match o with Some _ => true | None => false end) mt
  | _ => false end = true.
Proof. vm_compute. reflexivity. Qed.

(* "the sigma skeleton ... unchanged": kekulize leaves every slot of every adjacency row in place and changes nothing of
   an edge but its order (first conjunct: the graphs agree once orders are erased); and the only orders it changes are
   those of aromatic bonds (1.5, i.e. 3 half units), which become single or double (second conjunct) *)
Theorem C05_kekulize_changes_only_aromatic_bond_orders : forall smiles attributable m0 m1,
  smiles_to_mol smiles attributable = Ok m0 -> kekulize m0 = Ok (Some m1) ->
  map (map (option_map (fun e => with_order2 e 0))) (m_adj m1) = map (map (option_map (fun e => with_order2 e 0))) (m_adj m0) /\
  forall j row' e', nth_error (m_adj m1) j = Some row' -> In (Some e') row' ->
    exists row0 e0, nth_error (m_adj m0) j = Some row0 /\ In (Some e0) row0 /\ e_dst e' = e_dst e0 /\
      (e_order2 e' = e_order2 e0 \/ (e_order2 e0 = 3 /\ (e_order2 e' = 2 \/ e_order2 e' = 4)))%Z.
Proof. exact parsed_kekulize_keeps. Qed.

(* where the double bonds go, relative to kekulize's own pruning decision (kept = the atoms _prune_from_ds does not
   drop: "needs a pi bond"): (1) every kept atom ends with a double bond (has4: a stored edge of order 2 between the two
   atoms) to another kept atom along a bond that was aromatic in the reader's graph (edge3: order 1.5); (2) at an atom
   that is not kept nothing is raised: every bond there keeps its order, except that an aromatic one becomes single.
   Not claimed: that a kept atom gets exactly ONE double bond - that is what fails on the blossom witness. *)
Theorem C05_double_bonds_follow_the_pruning : forall smiles attributable m0 m1,
  smiles_to_mol smiles attributable = Ok m0 -> kekulize m0 = Ok (Some m1) ->
  exists kept, (ds_is_empty (m_ds m0) = false -> kept_nodes_of m0 (ds_keys (m_ds m0)) = Ok kept) /\
    (forall k, In k kept -> exists k', In k' kept /\ edge3 m0 k k' /\ has4 m1 k k') /\
    (forall p, ~ In p kept -> forall j row' e', nth_error (m_adj m1) j = Some row' -> In (Some e') row' -> j = p \/ e_dst e' = p ->
       exists row0 e0, nth_error (m_adj m0) j = Some row0 /\ In (Some e0) row0 /\ e_dst e' = e_dst e0 /\
         (e_order2 e' = e_order2 e0 \/ (e_order2 e0 = 3 /\ e_order2 e' = 2))%Z).
Proof. exact parsed_kekulize_pi. Qed.

(* pyrrole: the four carbons are kept and end with a double bond each; the [nH] is dropped and keeps two single bonds *)
Example C05_pi_example :
  match smiles_to_mol (lit "c1cc[nH]c1") false with
  | Ok m0 => match kept_nodes_of m0 (ds_keys (m_ds m0)), kekulize m0 with
             | Ok kept, Ok (Some m1) =>
                 match kept with [0; 1; 2; 4]%nat => true | _ => false end &&
                 forallb (fun row => forallb (fun oe => match oe with Some e => negb (Nat.eqb (e_dst e) 3) || (e_order2 e =? 2)%Z | None => true end) row) (m_adj m1) &&
                 match nth_error (m_adj m1) 3 with Some row => forallb (fun oe => match oe with Some e => (e_order2 e =? 2)%Z | None => true end) row | None => false end
             | _, _ => false end
  | Err _ => false end = true.
Proof. vm_compute. reflexivity. Qed.

Example C05_kekulize_example :
  match smiles_to_mol (lit "c1ccc2[nH]ccc2c1") false with
  | Ok m0 => existsb (fun p => a_aromatic (fst p)) (m_atoms m0) &&
             match kekulize m0 with Ok (Some m1) => forallb (fun p => negb (a_aromatic (fst p))) (m_atoms m1) | _ => false end
  | Err _ => false end = true.
Proof. vm_compute. reflexivity. Qed.

Print Assumptions C05_valence_tables_documented.
Print Assumptions C05_matching_sound_refuted.
Print Assumptions C05_statement_refuted.
Print Assumptions C05_checker_sound.
Print Assumptions C05_kekulize_clears_every_aromatic_atom.
Print Assumptions C05_returned_matching_covers_along_edges_partial.
Print Assumptions C05_kekulize_changes_only_aromatic_bond_orders.
Print Assumptions C05_double_bonds_follow_the_pruning.
