(* C18 — compatible=True is a conservative extension for pre-v2 symbols. *)
From Coq Require Import List NArith.
Import ListNotations.
From Selfies Require Import Base Generated Atoms Compat Decoder WfSpec NopFacts CompatSpec CompatFacts.

(* strings without legacy symbols decode the same with and without the flag *)
Theorem C18_conservative : forall T attribute frs,
  frs <> [] -> Forall wfd frs ->
  (forall fr t, In fr frs -> In t (filter not_nop (symbols fr)) -> not_legacy t) ->
  decoder T (render_frags frs) true attribute = decoder T (render_frags frs) false attribute.
Proof. exact compat_conservative. Qed.

(* with the flag, the result is that of the string with every symbol replaced
   by what modernize_symbol maps it to *)
Theorem C18_is_modernization : forall T attribute frs frs',
  frs <> [] -> Forall wfd frs -> Forall wfd frs' ->
  Forall2 (fun fr fr' => Forall2 (fun t t' => modernize_symbol t = Ok t')
                                 (filter not_nop (symbols fr)) (filter not_nop (symbols fr'))) frs frs' ->
  decoder T (render_frags frs) true attribute = decoder T (render_frags frs') false attribute.
Proof. exact compat_is_modernization. Qed.

(* for branch / ring symbols that mapping is the documented table (generated
   table = hand-written documented table) *)
Theorem C18_table_is_documented : forall k v,
  assoc k symbol_update_table = Some v <-> assoc k doc_legacy_table = Some v.
Proof. exact update_table_documented. Qed.
Theorem C18_table_symbols : forall k v, assoc k doc_legacy_table = Some v -> modernize_symbol k = Ok v.
Proof. exact table_symbols_modernized. Qed.

(* without the flag a legacy table symbol is rejected when (and only when) reached *)
Theorem C18_rejected_without_flag : forall k v, assoc k symbol_update_table = Some v ->
  forall T bad aidx fuel idx rest m maxd state prev rings astack nd, below nd maxd = true ->
  derive T bad aidx (S fuel) ((idx, k) :: rest) m maxd state prev rings astack nd = Err DecoderError.
Proof. exact legacy_symbol_rejected_when_reached. Qed.

Print Assumptions C18_conservative.
Print Assumptions C18_is_modernization.
Print Assumptions C18_table_is_documented.
Print Assumptions C18_table_symbols.
Print Assumptions C18_rejected_without_flag.
