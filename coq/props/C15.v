(* C15 — Label / one-hot encodings are exact inverses of their decoders.
   Model: model/EncUtils.v (encoding_utils.py).  Spec: spec/EncSpec.v.
   l ranges over all well-formed strings (WfSpec), stoi/itos over all
   vocabularies that are bijections onto 0..n-1 (vocab_ok), pad over all Z. *)
From Coq Require Import String List ZArith NArith.
Import ListNotations.
Local Open Scope string_scope.
From Selfies Require Import Base Lex EncUtils WfSpec EncSpec EncFacts.

(* label list = vocabulary indices of the symbols followed by [nop] padding;
   a symbol (or the padding symbol, or ".") missing from the vocabulary raises *)
Theorem C15_label : forall stoi l pad, wf l ->
  selfies_to_encoding (render l) stoi pad (lit "label") =
  match labels stoi (tokens (padded l pad)) with Some ints => Ok (Label ints) | None => Err KeyError end.
Proof. exact s2e_label. Qed.

(* its length is max(symbol length, pad length) *)
Theorem C15_length : forall l pad,
  Z.of_nat (length (tokens (padded l pad))) = Z.max (Z.of_nat (length (tokens l))) pad.
Proof. exact length_tokens_padded. Qed.

(* one-hot matrix: row k is the unit row of label k *)
Theorem C15_one_hot : forall stoi itos l pad ints, wf l -> vocab_ok stoi itos ->
  labels stoi (tokens (padded l pad)) = Some ints ->
  selfies_to_encoding (render l) stoi pad (lit "one_hot") = Ok (OneHot (map (unit_row (length stoi)) ints)) /\
  selfies_to_encoding (render l) stoi pad (lit "both") = Ok (Both ints (map (unit_row (length stoi)) ints)).
Proof. exact s2e_one_hot. Qed.

(* a unit row has exactly one 1, at that index *)
Theorem C15_unit_row : forall n i, (0 <= i < Z.of_nat n)%Z ->
  length (unit_row n i) = n /\
  forall j, (j < n)%nat -> nth j (unit_row n i) 0%Z = if (Z.of_nat j =? i)%Z then 1%Z else 0%Z.
Proof. exact unit_row_spec. Qed.

(* encoding_to_selfies applied to either returns the original string followed by the padding *)
Theorem C15_decode_inverts : forall stoi itos l pad ints, wf l -> vocab_ok stoi itos ->
  labels stoi (tokens (padded l pad)) = Some ints ->
  encoding_to_selfies (InLabel ints) itos (lit "label") = Ok (render l ++ nops (pad_count (length (tokens l)) pad))%list /\
  encoding_to_selfies (InOneHot (map (unit_row (length stoi)) ints)) itos (lit "one_hot")
    = Ok (render l ++ nops (pad_count (length (tokens l)) pad))%list.
Proof. exact e2s_roundtrip. Qed.

(* batch functions = per-string functions element-wise, and inverse to each other *)
Theorem C15_batch_elementwise : forall stoi pad ss ms,
  Forall2 (fun s m => selfies_to_encoding s stoi pad (lit "one_hot") = Ok (OneHot m)) ss ms ->
  batch_selfies_to_flat_hot ss stoi pad = Ok (map (@concat Z) ms).
Proof. exact batch_is_elementwise. Qed.

Theorem C15_batch_inverse : forall stoi itos pad (ls : list (list item)) intss,
  vocab_ok stoi itos -> (0 < length stoi)%nat -> Forall wf ls ->
  Forall2 (fun l ints => labels stoi (tokens (padded l pad)) = Some ints) ls intss ->
  exists flats,
    batch_selfies_to_flat_hot (map render ls) stoi pad = Ok flats /\
    batch_flat_hot_to_selfies flats itos =
      Ok (map (fun l => (render l ++ nops (pad_count (length (tokens l)) pad))%list) ls).
Proof. exact flat_hot_roundtrip. Qed.

(* errors instead of wrong data *)
Theorem C15_bad_enc_type : forall s stoi pad et,
  et <> lit "label" -> et <> lit "one_hot" -> et <> lit "both" ->
  selfies_to_encoding s stoi pad et = Err ValueError.
Proof. exact bad_enc_type_rejected. Qed.
Theorem C15_batch_error_propagates : forall stoi pad s r e,
  selfies_to_encoding s stoi pad (lit "one_hot") = Err e ->
  batch_selfies_to_flat_hot (s :: r) stoi pad = Err e.
Proof. exact batch_propagates_errors. Qed.
Theorem C15_ragged_rejected : forall flat r itos, (0 < length itos)%nat ->
  Nat.modulo (length flat) (length itos) <> 0%nat ->
  batch_flat_hot_to_selfies (flat :: r) itos = Err ValueError.
Proof. exact ragged_rejected. Qed.

Print Assumptions C15_label.
Print Assumptions C15_length.
Print Assumptions C15_one_hot.
Print Assumptions C15_unit_row.
Print Assumptions C15_decode_inverts.
Print Assumptions C15_batch_elementwise.
Print Assumptions C15_batch_inverse.
Print Assumptions C15_bad_enc_type.
Print Assumptions C15_batch_error_propagates.
Print Assumptions C15_ragged_rejected.
