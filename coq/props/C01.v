(* C01 — every SELFIES string decodes to a syntactically valid, valence-valid SMILES.
   PROVED END TO END (C01_valid_smiles below) for ALL strings, ALL tables with '?' and both values of
   attribute: whenever fewer than 100 pairs of atoms are joined by ring bonds, the string the decoder
   returns is accepted by the independent reader (spec/Reader.v) and the molecule read from it is a
   simple graph, in Kekule form, every atom within the capacity the table gives it.
   Route: graph invariant of derivation + ring pass (DecoderInv, DecoderSum, DecoderTree), shape of the
   decoded atoms and read-back of their tokens (WriterAtoms), tokenisation of the printed string
   (WriterLex, WriterToks), simulation of the reader on the writer's traversal (WriterSim), validity of
   the molecule read (WriterFinal).  The bound is sharp: with 100 ring bonds the writer prints %100 and
   the statement is REFUTED on the faithful model (C01_label_refuted: known finding). *)
From Coq Require Import String List ZArith NArith Bool.
Import ListNotations.
From Selfies Require Import Base Generated Lex Atoms Decoder StateFacts Reader DecoderBasics DecoderInv DecoderTree DecoderSum TokFacts WriterFinal RingCount CompatTotal.
Local Open Scope string_scope.
Local Open Scope Z_scope.

(* the full statement, kept visible: for every accepted table and every string,
   what the decoder returns is judged valid by the independent reader *)
Definition C01_full_statement : Prop :=
  forall (T : table) (s : str) (out : str),
    (exists c, assoc (lit "?") T = Some c) -> (forall k v, In (k, v) T -> 0 <= v) ->
    decoder_str T s false = Ok out -> valid_smiles_under T out = true.

(* ... and it is FALSE of the faithful model: 100 ring bonds give the label %100 *)
Theorem C01_label_refuted :
  exists out, decoder_str default_constraints hundred_rings false = Ok out /\
              contains (lit "%100") out = true /\
              valid_smiles_under default_constraints out = false.
Proof. exact label_refuted. Qed.

Theorem C01_full_statement_refuted : ~ C01_full_statement.
Proof.
  intro H. destruct label_refuted as (out & Hd & _ & Hv).
  rewrite (H default_constraints hundred_rings out) in Hv; [discriminate| | |exact Hd].
  - eexists. vm_compute. reflexivity.
  - intros k v Hin.
    assert (F : forallb (fun kv => 0 <=? snd kv) default_constraints = true) by (vm_compute; reflexivity).
    rewrite forallb_forall in F. apply Z.leb_le. exact (F _ Hin).
Qed.

(* partial: the three state functions (regenerated from grammar_rules.py on this
   run) never hand out more bond order than the state, the requested order and
   the capacity of the new atom allow, and the next state is what is left *)
Theorem C01_atom_rule_partial : forall beta cap state mu ns,
  next_atom_state beta cap state = (mu, ns) -> 1 <= beta -> 0 <= cap -> 0 <= state ->
  mu = Z.min (Z.min beta cap) state /\ 0 <= mu /\ mu <= beta /\ mu <= cap /\ mu <= state /\
  (state = 0 -> mu = 0) /\
  match ns with None => cap - mu = 0 | Some k => k = cap - mu /\ 0 < k end.
Proof. exact nas_spec. Qed.

Theorem C01_branch_rule_partial : forall btype state binit ns,
  next_branch_state btype state = (binit, ns) -> next_branch_state_pre btype state = true ->
  binit = Z.min (state - 1) btype /\ ns = state - binit /\ 1 <= binit <= 3 /\ 1 <= ns /\ binit + ns = state.
Proof. exact nbs_spec. Qed.

Theorem C01_ring_rule_partial : forall rtype state order ns,
  next_ring_state rtype state = (order, ns) -> next_ring_state_pre rtype state = true -> 1 <= rtype ->
  order = Z.min rtype state /\ 1 <= order /\ order <= rtype /\ order <= state /\
  match ns with None => state - order = 0 | Some k => k = state - order /\ 0 < k end.
Proof. exact nrs_spec. Qed.


(* ---------- the valence guarantee at the level of the graph ----------
   For every table with '?', every string s (digits_ok: see C08), attribute or not: in the graph built by
   the two passes (derivation + ring formation), every atom is non-aromatic, carries exactly the bonding
   capacity the table gives its (element, charge) minus its explicit H count, and the orders of ALL bonds
   at it (those stored at the atom, plus the tree bond stored at its parent) sum to at most that capacity. *)
Theorem C01_graph_valence_partial : forall T s attribute m,
  (exists c, assoc (lit "?") T = Some c) -> digits_ok s ->
  decode_graph T s false attribute = Ok m ->
  forall i a c at_, nth_error (atoms m) i = Some (a, c, at_) ->
    a_aromatic a = false /\ bonding_capacity T a = Ok c /\ 0 <= valence m i <= c.
Proof. intros T s attribute m Hq Hd E. exact (graph_valence T m (decode_graph_ok T s attribute m Hq Hd E)). Qed.


(* the same for every string whose symbols int() can read (at most int_max_str_digits characters each) *)
Theorem C01_graph_valence_short_symbols : forall T s attribute m,
  (exists c, assoc (lit "?") T = Some c) -> symbols_short s ->
  decode_graph T s false attribute = Ok m ->
  forall i a c at_, nth_error (atoms m) i = Some (a, c, at_) ->
    a_aromatic a = false /\ bonding_capacity T a = Ok c /\ 0 <= valence m i <= c.
Proof. intros T s attribute m Hq Hs. apply C01_graph_valence_partial; [exact Hq|now apply digits_ok_of_symbols]. Qed.

(* ... and the graph is well formed: every bond leads to an existing atom, has order 1, 2 or 3, tree bonds
   point forward, ring bonds are stored at both ends with the same order, no atom has two bonds to the
   same neighbour, roots exist *)
Theorem C01_graph_shape_partial : forall T s attribute m,
  (exists c, assoc (lit "?") T = Some c) -> digits_ok s ->
  decode_graph T s false attribute = Ok m ->
  (forall i e, In e (row m i) -> (b_dst e < natoms m)%nat /\ 1 <= b_order e <= 3 /\ (b_ring e = false -> (i < b_dst e)%nat)) /\
  (forall i e, In e (row m i) -> b_ring e = true ->
     exists e', In e' (row m (b_dst e)) /\ b_dst e' = i /\ b_order e' = b_order e /\ b_ring e' = true) /\
  (forall i, NoDup (map b_dst (row m i))) /\
  (forall r, In r (roots m) -> (r < natoms m)%nat).
Proof.
  intros T s attribute m Hq Hd E. destruct (decode_graph_ok T s attribute m Hq Hd E) as [G _].
  split; [|split; [|split]].
  - intros i e He. destruct (wf_bonds _ _ _ G i e He) as (A & B & C & _). auto.
  - exact (si_sym _ (wf_extra _ _ _ G)).
  - exact (si_nodup _ (wf_extra _ _ _ G)).
  - exact (wf_roots _ _ _ G).
Qed.


(* ... and its tree bonds form a forest over the roots: every atom is a root or has exactly one parent,
   roots have none, no root is listed twice (so the writer prints every atom exactly once) *)
Theorem C01_graph_forest_partial : forall T s attribute m,
  (exists c, assoc (lit "?") T = Some c) -> digits_ok s ->
  decode_graph T s false attribute = Ok m -> TreeInv m.
Proof. intros T s attribute m Hq Hd E. exact (proj2 (decode_graph_ok T s attribute m Hq Hd E)). Qed.

(* what is returned is what the writer prints from exactly that graph *)
Theorem C01_output_is_written_graph : forall T s attribute out,
  decoder T s false attribute = Ok out ->
  exists m, decode_graph T s false attribute = Ok m /\ mol_to_smiles m = Ok out.
Proof.
  intros T s attribute out E. unfold decoder, decoder_c in E. fold (decode_graph T s false attribute) in E.
  destruct (decode_graph T s false attribute) as [m|]; cbn [bind] in E; [|discriminate]. eauto.
Qed.

(* non-vacuity: a graph with branches, a ring, a raised bond and a clipped atom *)
Example C01_graph_example :
  exists m, decode_graph default_constraints (lit "[C][=C][Branch1][C][=O][C][=C][Ring1][Branch1][F][#N]") false false = Ok m
            /\ natoms m = 6%nat /\ map (valence m) (seq 0 6) = [3; 4; 1; 3; 4; 1].
Proof. eexists. split; [vm_compute; reflexivity|]. split; vm_compute; reflexivity. Qed.


(* ---------- the main theorem ---------- *)
Theorem C01_valid_smiles : forall T s attribute out maps,
  (exists c, assoc (lit "?") T = Some c) -> symbols_short s ->
  decoder T s false attribute = Ok (out, maps) ->
  (forall m, decode_graph T s false attribute = Ok m -> (length (ring_pairs m) < 100)%nat) ->
  valid_smiles_under T out = true.
Proof.
  intros T s attribute out maps Hq Hs E Hr.
  apply (decoder_output_valid T s false attribute out maps Hq); [|exact E|exact Hr].
  apply tokenize_all_ok. now apply digits_ok_of_symbols.
Qed.

(* with either flag, under the condition on the token streams of C08 *)
Theorem C01_valid_smiles_any_flag : forall T s compat attribute out maps,
  (exists c, assoc (lit "?") T = Some c) -> frags_ok s compat ->
  decoder T s compat attribute = Ok (out, maps) ->
  (forall m, decode_graph T s compat attribute = Ok m -> (length (ring_pairs m) < 100)%nat) ->
  valid_smiles_under T out = true.
Proof. exact decoder_output_valid. Qed.

(* the ring bound can be read off the input: the decoded graph joins at most as many pairs of atoms by ring
   bonds as the string has ring symbols *)
Theorem C01_ring_pairs_bounded : forall T s compat attribute m,
  decode_graph T s compat attribute = Ok m -> (length (ring_pairs m) <= ring_symbol_count s compat)%nat.
Proof. intros T s compat attribute m. exact (ring_pairs_le_symbols (get_bonding_capacity T) s compat attribute m). Qed.

(* ... so the main theorem has hypotheses on the input string only: symbols of at most 19 characters (or
   digit-free), fewer than 100 ring symbols *)
Theorem C01_valid_smiles_from_string : forall T s attribute out maps,
  (exists c, assoc (lit "?") T = Some c) -> symbols_short s -> (ring_symbol_count s false < 100)%nat ->
  decoder T s false attribute = Ok (out, maps) ->
  valid_smiles_under T out = true.
Proof.
  intros T s attribute out maps Hq Hs Hr E. apply (C01_valid_smiles T s attribute out maps Hq Hs E).
  intros m Hm. apply Nat.le_lt_trans with (ring_symbol_count s false); [exact (C01_ring_pairs_bounded T s false attribute m Hm)|exact Hr].
Qed.

Theorem C01_valid_smiles_from_string_any_flag : forall T s compat attribute out maps,
  (exists c, assoc (lit "?") T = Some c) -> frags_ok s compat -> (ring_symbol_count s compat < 100)%nat ->
  decoder T s compat attribute = Ok (out, maps) ->
  valid_smiles_under T out = true.
Proof.
  intros T s compat attribute out maps Hq Hs Hr E. apply (decoder_output_valid T s compat attribute out maps Hq Hs E).
  intros m Hm. apply Nat.le_lt_trans with (ring_symbol_count s compat); [exact (C01_ring_pairs_bounded T s compat attribute m Hm)|exact Hr].
Qed.

(* both flags, hypotheses on the input string alone (the legacy front end is covered by proofs/CompatTotal.v) *)
Theorem C01_valid_smiles_from_string_both_flags : forall T s compat attribute out maps,
  (exists c, assoc (lit "?") T = Some c) -> symbols_short s -> (ring_symbol_count s compat < 100)%nat ->
  decoder T s compat attribute = Ok (out, maps) ->
  valid_smiles_under T out = true.
Proof.
  intros T s compat attribute out maps Hq Hs. apply C01_valid_smiles_from_string_any_flag; [exact Hq|]. now apply frags_ok_of_symbols.
Qed.

(* the bound on ring symbols is sharp: 99 five-rings in a row decode to a valid string, 100 do not *)
Definition five_rings (n : nat) : str := (lit "[C]" ++ concat (repeat (lit "[C][C][C][C][Ring1][Branch1]") n))%list.
Example C01_ring_symbols_sharp :
  (ring_symbol_count (five_rings 99) false = 99%nat /\
   exists out, decoder_str default_constraints (five_rings 99) false = Ok out /\ valid_smiles_under default_constraints out = true) /\
  (ring_symbol_count (five_rings 100) false = 100%nat /\
   exists out, decoder_str default_constraints (five_rings 100) false = Ok out /\ valid_smiles_under default_constraints out = false).
Proof. split; (split; [vm_compute; reflexivity|eexists; split; vm_compute; reflexivity]). Qed.

(* non-vacuity: the hypotheses hold of a string with branches, rings and clipped symbols *)
Example C01_valid_smiles_example :
  let s := lit "[C][=C][Branch1][C][=O][C][=C][Ring1][Branch1][F][#N].[13CH2-1][Ring1][C]" in
  symbols_short s /\
  (exists m, decode_graph default_constraints s false false = Ok m /\ (length (ring_pairs m) < 100)%nat) /\
  (exists out maps, decoder default_constraints s false true = Ok (out, maps) /\ valid_smiles_under default_constraints out = true).
Proof.
  split; [|split].
  - intros frag t Hf Ht. right. vm_compute in Hf.
    repeat (destruct Hf as [<-|Hf]; [vm_compute in Ht; repeat (destruct Ht as [<-|Ht]; [vm_compute; discriminate|]); destruct Ht|]). destruct Hf.
  - eexists. split; [vm_compute; reflexivity|vm_compute; repeat constructor].
  - eexists. eexists. split; vm_compute; reflexivity.
Qed.

(* non-vacuity of the bound: 99 rings are still fine *)
Theorem C01_ninety_nine_rings :
  exists out, decoder_str default_constraints
                (lit "[C]" ++ concat (repeat (lit "[C][C][Ring1][Ring1][C]") 99))%list false = Ok out /\
              valid_smiles_under default_constraints out = true.
Proof. exact ninety_nine_rings_fine. Qed.

Print Assumptions C01_label_refuted.
Print Assumptions C01_full_statement_refuted.
Print Assumptions C01_atom_rule_partial.
Print Assumptions C01_branch_rule_partial.
Print Assumptions C01_ring_rule_partial.
Print Assumptions C01_ninety_nine_rings.
Print Assumptions C01_graph_valence_partial.
Print Assumptions C01_graph_shape_partial.
Print Assumptions C01_graph_forest_partial.
Print Assumptions C01_valid_smiles.
Print Assumptions C01_valid_smiles_any_flag.
Print Assumptions C01_ring_pairs_bounded.
Print Assumptions C01_valid_smiles_from_string.
Print Assumptions C01_valid_smiles_from_string_any_flag.
Print Assumptions C01_valid_smiles_from_string_both_flags.
Print Assumptions C01_graph_valence_short_symbols.
Print Assumptions C01_output_is_written_graph.
