(* C01 — every SELFIES string decodes to a syntactically valid, valence-valid SMILES.
   (file grows: the graph invariant of the derivation and ring pass is in
   proofs/DecoderInv.v once proved; see DESIGN.md section 5/C01 for the stages) *)
From Coq Require Import String List ZArith NArith Bool.
Import ListNotations.
From Selfies Require Import Base Generated Atoms Decoder StateFacts Reader DecoderBasics.
Local Open Scope string_scope.
Local Open Scope Z_scope.

(* the full statement, kept visible: for every accepted table and every string,
   what the decoder returns is judged valid by the independent reader *)
Definition C01_full_statement : Prop :=
  forall (T : table) (s : str) (out : str),
    (exists c, assoc (lit "?") T = Some c) -> (forall k v, In (k, v) T -> 0 <= v) ->
    decoder_str T s false = Ok out -> valid_smiles_under T out = true.

(* ... and it is FALSE of the faithful model: 100 ring bonds give the label %100 *)
Theorem C01_label_refuted :
  exists out, decoder_str default_constraints hundred_rings false = Ok out /\
              contains (lit "%100") out = true /\
              valid_smiles_under default_constraints out = false.
Proof. exact label_refuted. Qed.

Theorem C01_full_statement_refuted : ~ C01_full_statement.
Proof.
  intro H. destruct label_refuted as (out & Hd & _ & Hv).
  rewrite (H default_constraints hundred_rings out) in Hv; [discriminate| | |exact Hd].
  - eexists. vm_compute. reflexivity.
  - intros k v Hin.
    assert (F : forallb (fun kv => 0 <=? snd kv) default_constraints = true) by (vm_compute; reflexivity).
    rewrite forallb_forall in F. apply Z.leb_le. exact (F _ Hin).
Qed.

(* partial: the three state functions (regenerated from grammar_rules.py on this
   run) never hand out more bond order than the state, the requested order and
   the capacity of the new atom allow, and the next state is what is left *)
Theorem C01_atom_rule_partial : forall beta cap state mu ns,
  next_atom_state beta cap state = (mu, ns) -> 1 <= beta -> 0 <= cap -> 0 <= state ->
  mu = Z.min (Z.min beta cap) state /\ 0 <= mu /\ mu <= beta /\ mu <= cap /\ mu <= state /\
  (state = 0 -> mu = 0) /\
  match ns with None => cap - mu = 0 | Some k => k = cap - mu /\ 0 < k end.
Proof. exact nas_spec. Qed.

Theorem C01_branch_rule_partial : forall btype state binit ns,
  next_branch_state btype state = (binit, ns) -> next_branch_state_pre btype state = true ->
  binit = Z.min (state - 1) btype /\ ns = state - binit /\ 1 <= binit <= 3 /\ 1 <= ns /\ binit + ns = state.
Proof. exact nbs_spec. Qed.

Theorem C01_ring_rule_partial : forall rtype state order ns,
  next_ring_state rtype state = (order, ns) -> next_ring_state_pre rtype state = true -> 1 <= rtype ->
  order = Z.min rtype state /\ 1 <= order /\ order <= rtype /\ order <= state /\
  match ns with None => state - order = 0 | Some k => k = state - order /\ 0 < k end.
Proof. exact nrs_spec. Qed.

(* non-vacuity of the bound: 99 rings are still fine *)
Theorem C01_ninety_nine_rings :
  exists out, decoder_str default_constraints
                (lit "[C]" ++ concat (repeat (lit "[C][C][Ring1][Ring1][C]") 99))%list false = Ok out /\
              valid_smiles_under default_constraints out = true.
Proof. exact ninety_nine_rings_fine. Qed.

Print Assumptions C01_label_refuted.
Print Assumptions C01_full_statement_refuted.
Print Assumptions C01_atom_rule_partial.
Print Assumptions C01_branch_rule_partial.
Print Assumptions C01_ring_rule_partial.
Print Assumptions C01_ninety_nine_rings.
