(* C09 — encoder is total.
   STATUS (partial): the two documented failure routes end in EncoderError; the inputs the
   property names are rejected with EncoderError (they crashed before the repairs).  Crash
   freedom of the whole encoder model (parser / kekulisation / matching / emission invariants)
   is not proved; outcome classes of implementation and model are compared on malformed input. *)
From Coq Require Import String List ZArith NArith Bool.
Import ListNotations.
From Selfies Require Import Base Generated Atoms Grammar Decoder PySet Matching Smiles Kekulize Encoder
  IndexSpec IndexCode Reader RoundTrip EncoderFacts PureFacts.
Local Open Scope string_scope.

Theorem C09_parse_error_is_encoder_error_partial : forall capf s strict attribute,
  smiles_to_mol s attribute = Err SMILESParserError -> encoder_c capf s strict attribute = Err EncoderError.
Proof. exact parse_error_becomes_encoder_error. Qed.

Theorem C09_kekulize_failure_is_encoder_error_partial : forall capf s strict attribute m0,
  smiles_to_mol s attribute = Ok m0 -> kekulize m0 = Ok None -> encoder_c capf s strict attribute = Err EncoderError.
Proof. exact kekulize_failure_becomes_encoder_error. Qed.

Theorem C09_named_inputs_partial :
  encoder default_constraints (lit "C11") true false = Err EncoderError /\
  encoder default_constraints (lit "F:F") true false = Err EncoderError /\
  (match encoder default_constraints (lit "C1CC1") true false with
   | Ok (x, _) => str_eqb x (lit "[C][C][C][Ring1][Ring1]") | Err _ => false end) = true.
Proof. exact named_inputs_rejected. Qed.

Print Assumptions C09_parse_error_is_encoder_error_partial.
Print Assumptions C09_kekulize_failure_is_encoder_error_partial.
Print Assumptions C09_named_inputs_partial.
