(* C09 — encoder is total.
   Proved for ALL strings (proofs/ParserTotal.v): the first stage - SMILES tokenizer and graph
   construction - never crashes: it returns a graph whose arrays agree in length, or the encoder
   raises EncoderError, or ValueError escapes from int() on an over-long digit field (the
   interpreter limit: known finding).  No IndexError / KeyError / AttributeError / AssertionError
   and no fuel exhaustion (the loops terminate).  Also proved: the two documented failure routes
   end in EncoderError; the inputs the property names are rejected with EncoderError.
   Last stage (proofs/EncFuel.v, EncIndex.v, EncKey.v, EncAttrErr.v, EncUniq.v, EncOrders.v, EncOutcomes.v): once the
   reader and kekulize have returned, encoder() under a table with a '?' entry returns or raises EncoderError (the
   strict check) - and nothing else: no IndexError (edges end inside the graph and never at their
   source, roots are atoms, the arrays stay aligned through kekulize, indices are never negative), no KeyError (every
   ring bond is stored in both directions), no AttributeError (every slot reserved by a ring digit is filled when the
   reader accepts), no fuel exhaustion (tree bonds lead to larger indices), no AssertionError (proofs/EncArom.v: no atom is left aromatic;
   proofs/EncUniq.v: no two edges of a row lead to the same atom, so the two directions of a ring bond always carry the
   same order), no ValueError (proofs/EncOrders.v: every bond of order 1.5 joins two atoms of the delocalisation subgraph
   and is listed there in both directions, so dearomatize rewrites every one of them; orders after kekulize are 1, 2 or 3).
   Middle stage (proofs/EncKek.v, EncMatch.v): kekulize on a parsed graph can raise only inside find_perfect_matching.
   The matching routine and the CPython set model (proofs/EncMatchSafe.v, EncGreedy.v, EncGreedyT.v, EncMatchT.v,
   EncProbe.v): neither phase raises, every loop - the set's probe loops included - terminates.
   Assembled (proofs/EncTotal.v): C09_encoder_total, THE PROPERTY AS STATED for the model, up to the known finding
   (int() on a digit field of more than 4300 digits).  The theorems named ..._partial below are the steps of the
   argument, kept in the order in which they were proved.  Outcome classes of implementation and model are compared on
   malformed input on every run, and so is the CPython set model against the interpreter's set. *)
From Coq Require Import String List ZArith NArith Bool.
Import ListNotations.
From Selfies Require Import Base Generated Atoms Grammar Decoder PySet Matching Smiles Kekulize Encoder
  IndexSpec IndexCode Reader RoundTrip EncoderFacts PureFacts ParserTotal EncFuel EncIndex EncKey EncAttrErr EncUniq EncOrders EncKek EncMatch EncMatchSafe EncCount EncGreedy EncGreedyT EncMatchT EncProbe EncOutcomes EncTotal.
Local Open Scope string_scope.

Theorem C09_parse_error_is_encoder_error_partial : forall capf s strict attribute,
  smiles_to_mol s attribute = Err SMILESParserError -> encoder_c capf s strict attribute = Err EncoderError.
Proof. exact parse_error_becomes_encoder_error. Qed.

Theorem C09_kekulize_failure_is_encoder_error_partial : forall capf s strict attribute m0,
  smiles_to_mol s attribute = Ok m0 -> kekulize m0 = Ok None -> encoder_c capf s strict attribute = Err EncoderError.
Proof. exact kekulize_failure_becomes_encoder_error. Qed.

Theorem C09_named_inputs_partial :
  encoder default_constraints (lit "C11") true false = Err EncoderError /\
  encoder default_constraints (lit "F:F") true false = Err EncoderError /\
  (match encoder default_constraints (lit "C1CC1") true false with
   | Ok (x, _) => str_eqb x (lit "[C][C][C][Ring1][Ring1]") | Err _ => false end) = true.
Proof. exact named_inputs_rejected. Qed.


(* stage 1, all strings: the reader of the encoder returns a well-formed graph or fails cleanly *)
Theorem C09_parser_total_partial : forall s attributable,
  match smiles_to_mol s attributable with
  | Ok m => GWF m
  | Err e => e = SMILESParserError \/ e = ValueError
  end.
Proof. exact smiles_to_mol_total. Qed.

(* hence: whenever the encoder fails in its first stage, it raises EncoderError (or the int() ValueError) *)
Corollary C09_first_stage_outcomes_partial : forall capf s strict attribute,
  (exists m0, smiles_to_mol s attribute = Ok m0 /\ GWF m0 /\ encoder_c capf s strict attribute = encode_mol capf m0 strict) \/
  encoder_c capf s strict attribute = Err EncoderError \/ encoder_c capf s strict attribute = Err ValueError.
Proof.
  intros capf s strict attribute. pose proof (smiles_to_mol_total s attribute) as H. unfold encoder_c.
  destruct (smiles_to_mol s attribute) as [m0|e]; [left; eauto|]. destruct H as [-> | ->]; auto.
Qed.

(* last stage: once the reader and kekulize have returned, nothing in encoder() - strict check, inversion pass, the
   walk that emits the symbols - can end in the model's OutOfFuel: tree bonds lead to atoms of larger index, so one unit
   of fuel per atom suffices (the fuel of the walk is a modelling device, never an outcome) *)
Theorem C09_emission_never_out_of_fuel_partial : forall T smiles strict attribute m0 m1 e,
  smiles_to_mol smiles attribute = Ok m0 -> kekulize m0 = Ok (Some m1) ->
  encoder T smiles strict attribute = Err e -> e <> OutOfFuel.
Proof. exact encoder_after_kekulize_no_fuel. Qed.

(* ... nor in IndexError, KeyError (table with '?') or AttributeError *)
Theorem C09_emission_no_index_error_partial : forall T smiles strict attribute m0 m1 e,
  smiles_to_mol smiles attribute = Ok m0 -> kekulize m0 = Ok (Some m1) ->
  encoder T smiles strict attribute = Err e -> e <> IndexError.
Proof. exact encoder_after_kekulize_no_index_error. Qed.

Theorem C09_emission_no_key_error_partial : forall T smiles strict attribute m0 m1 e,
  (exists v, assoc (lit "?") T = Some v) ->
  smiles_to_mol smiles attribute = Ok m0 -> kekulize m0 = Ok (Some m1) ->
  encoder T smiles strict attribute = Err e -> e <> KeyError.
Proof. exact encoder_after_kekulize_no_key_error. Qed.

Theorem C09_emission_no_attribute_error_partial : forall T smiles strict attribute m0 m1 e,
  smiles_to_mol smiles attribute = Ok m0 -> kekulize m0 = Ok (Some m1) ->
  encoder T smiles strict attribute = Err e -> e <> AttributeError.
Proof. exact encoder_after_kekulize_no_attribute_error. Qed.

Theorem C09_emission_no_assertion_error_partial : forall T smiles strict attribute m0 m1 e,
  smiles_to_mol smiles attribute = Ok m0 -> kekulize m0 = Ok (Some m1) ->
  encoder T smiles strict attribute = Err e -> e <> AssertionError.
Proof. exact encoder_after_kekulize_no_assertion_error. Qed.

Theorem C09_emission_no_value_error_partial : forall T smiles strict attribute m0 m1 e,
  smiles_to_mol smiles attribute = Ok m0 -> kekulize m0 = Ok (Some m1) ->
  encoder T smiles strict attribute = Err e -> e <> ValueError.
Proof. exact encoder_after_kekulize_no_value_error. Qed.

(* after kekulize every bond has order 1, 2 or 3 (half units 2, 4, 6) *)
Theorem C09_kekulize_leaves_integral_orders : forall smiles attribute m0 m1,
  smiles_to_mol smiles attribute = Ok m0 -> kekulize m0 = Ok (Some m1) ->
  forall j row e, nth_error (m_adj m1) j = Some row -> In (Some e) row -> (e_order2 e = 2 \/ e_order2 e = 4 \/ e_order2 e = 6)%Z.
Proof. exact parsed_kekulize_orders. Qed.

(* middle stage: on a graph the reader returned, kekulize can raise only inside find_perfect_matching: the element
   test, _prune_from_ds over every key, the relabelling and dearomatize always return (proofs/EncKek.v), and whatever
   matching find_perfect_matching returns can be written back (proofs/EncMatch.v: it has one entry per node, every
   entry names a partner, and each pair is an edge of the pruned graph, hence a stored bond) *)
Theorem C09_kekulize_fails_only_inside_matching_partial : forall smiles attribute m0 e,
  smiles_to_mol smiles attribute = Ok m0 -> kekulize m0 = Err e ->
  exists g, pruned_ds m0 = Ok g /\ find_perfect_matching g = Err e.
Proof. intros smiles attribute m0 e Ep. exact (kekulize_fails_only_inside_matching m0 e (parsed_kpre _ _ _ Ep)). Qed.

(* inside find_perfect_matching: on any graph whose adjacency entries are node numbers, whatever it raises is raised by
   the greedy phase - the loop over `unmatched` (set construction, pop, BFS for an augmenting path, path reconstruction,
   flip, discard) ends in no Python exception: not the assert on matching[root], no IndexError / TypeError from the
   parents table, no KeyError from the set; the only failure left in the model is its own fuel (OutOfFuel = the loop
   does not terminate within the bound), which is not excluded here (proofs/EncMatchSafe.v; needs that the CPython set
   model keeps its keys distinct and that its lookups find every stored key) *)
Theorem C09_matching_raises_only_in_greedy_partial : forall g e,
  (forall i li j, nth_error g i = Some li -> In j li -> (j < length g)%nat) ->
  find_perfect_matching g = Err e -> e = OutOfFuel \/ greedy_matching g = Err e.
Proof. exact matching_raises_only_in_greedy. Qed.

(* assembled: the outcomes of the last stage *)
Theorem C09_last_stage_outcomes_partial : forall T smiles strict attribute m0 m1 e,
  (exists v, assoc (lit "?") T = Some v) ->
  smiles_to_mol smiles attribute = Ok m0 -> kekulize m0 = Ok (Some m1) ->
  encoder T smiles strict attribute = Err e -> e = EncoderError.
Proof. exact encoder_after_kekulize_outcomes. Qed.

(* the greedy phase too (proofs/EncGreedy.v): on the pruned graph of a parsed molecule - adjacency entries are labels,
   no atom is its own neighbour, and every pair is listed on both sides equally often - the bookkeeping of free_degrees
   is exactly the number of free neighbours, so `next(...)` never raises StopIteration; with the augmenting phase:
   whatever find_perfect_matching does there, it raises no Python exception; the only failure left in the model is its
   own fuel *)
Theorem C09_matching_raises_nothing_partial : forall smiles attribute m0 g e,
  smiles_to_mol smiles attribute = Ok m0 -> pruned_ds m0 = Ok g -> find_perfect_matching g = Err e -> e = OutOfFuel.
Proof. exact parsed_matching_raises_nothing. Qed.

(* the greedy phase also terminates (proofs/EncGreedyT.v): heap size + adjacency lengths of the unmatched nodes goes down
   with every pop, so the fuel of the model - and the loop of the library - is never exhausted there: on the pruned graph
   of a parsed molecule _greedy_matching always returns *)
Theorem C09_greedy_phase_returns : forall smiles attribute m0 g,
  smiles_to_mol smiles attribute = Ok m0 -> pruned_ds m0 = Ok g -> exists mt, greedy_matching g = Ok mt.
Proof. exact parsed_greedy_total. Qed.

(* and so does the rest of the routine, except for the set (proofs/EncMatchT.v): the BFS ends because a node enters the queue
   only when its parents entry is written for the first time; the path reconstruction ends because every entry points to
   a node whose own entry was written earlier; the loop over `unmatched` ends because every round pops one element and
   nothing is ever added.  Hence on the pruned graph of a parsed molecule the only thing that can fail inside
   find_perfect_matching is an operation of the CPython set model itself - and of those only the probe loops have a fuel
   (C09_matching_raises_nothing_partial: the failure is OutOfFuel).  What remains unproved for "encoder always terminates"
   is therefore exactly: the probe sequence of setobject.c reaches an unused slot within the model's bound. *)
Theorem C09_matching_fails_only_in_set_operations_partial : forall smiles attribute m0 g e,
  smiles_to_mol smiles attribute = Ok m0 -> pruned_ds m0 = Ok g -> find_perfect_matching g = Err e ->
  (exists l, ps_of_list l = Err e) \/ (exists s, ps_pop s = Err e) \/ (exists k s, ps_discard k s = Err e).
Proof.
  intros smiles attribute m0 g e Ep Eg Em. destruct (parsed_matching_fails_only_in_set_ops smiles attribute m0 g e Ep Eg Em) as [H|[H|H]]; auto.
Qed.

(* ... and the probe loops of the set terminate as well (proofs/EncProbe.v): once the perturbation has died out the probe
   sequence is i -> 5i+1 modulo the table size, a power of two; that map has full period (U^(2^k) x = x + 2^k modulo
   2^(k+1), by induction on k), so within `size` rounds a scan starts at an unused slot, and the table is never full
   (fill*5 < mask*3 after every add, a resize leaves it at most half full).  Hence find_perfect_matching returns on the
   pruned graph of every parsed molecule, kekulize returns on every parsed molecule, and - THE PROPERTY AS STATED, for the
   model, up to the one known finding - for every string, every table with a '?' entry and both flags the encoder
   terminates and returns or raises EncoderError; the only other outcome is the reader's int() ValueError on a digit
   field of more than 4300 digits (F-C09-int-digits).  (RecursionError, the other known finding, is outside the model:
   the model's recursion is on fuel, the interpreter's on its stack.) *)
Theorem C09_kekulize_returns : forall smiles attribute m0,
  smiles_to_mol smiles attribute = Ok m0 -> exists k, kekulize m0 = Ok k.
Proof. exact parsed_kekulize_total. Qed.

Theorem C09_encoder_total : forall T smiles strict attribute,
  (exists v, assoc (lit "?") T = Some v) ->
  (exists r, encoder T smiles strict attribute = Ok r) \/
  encoder T smiles strict attribute = Err EncoderError \/
  encoder T smiles strict attribute = Err ValueError.
Proof. exact encoder_total. Qed.

(* everything assembled, for EVERY string, every table with a '?' entry and both flags: the model of encoder() returns, or
   raises EncoderError, or the reader's int() refuses an over-long digit field (ValueError: known finding), or ends in
   the model-only outcome OutOfFuel inside find_perfect_matching - i.e. NO OTHER EXCEPTION TYPE ESCAPES; what is not
   proved is that the matching loops terminate within the fuel the model gives them *)
Theorem C09_encoder_outcomes_partial : forall T smiles strict attribute e,
  (exists v, assoc (lit "?") T = Some v) ->
  encoder T smiles strict attribute = Err e ->
  e = EncoderError \/ e = ValueError \/
  (e = OutOfFuel /\ exists m0 g, smiles_to_mol smiles attribute = Ok m0 /\ pruned_ds m0 = Ok g /\ find_perfect_matching g = Err OutOfFuel).
Proof.
  intros T smiles strict attribute e Hq E.
  pose proof (smiles_to_mol_total smiles attribute) as Hp.
  destruct (smiles_to_mol smiles attribute) as [m0|e0] eqn:Ep.
  - destruct (kekulize m0) as [[m1|]|ek] eqn:Ek.
    + left. exact (encoder_after_kekulize_outcomes T smiles strict attribute m0 m1 e Hq Ep Ek E).
    + left. unfold encoder in E. rewrite (kekulize_failure_becomes_encoder_error _ smiles strict attribute m0 Ep Ek) in E. congruence.
    + right. right. unfold encoder, encoder_c in E. rewrite Ep in E. unfold encode_mol in E. rewrite Ek in E. cbn in E. inversion E; subst ek.
      destruct (kekulize_fails_only_inside_matching m0 e (parsed_kpre _ _ _ Ep) Ek) as (g & Eg & Em).
      pose proof (parsed_matching_raises_nothing smiles attribute m0 g e Ep Eg Em) as Hf. unfold EncMatchSafe.fuel_only in Hf. subst e.
      split; [reflexivity|]. exists m0, g. auto.
  - unfold encoder, encoder_c in E. rewrite Ep in E. destruct Hp as [-> | ->]; inversion E; auto.
Qed.

Print Assumptions C09_parse_error_is_encoder_error_partial.
Print Assumptions C09_parser_total_partial.
Print Assumptions C09_first_stage_outcomes_partial.
Print Assumptions C09_kekulize_failure_is_encoder_error_partial.
Print Assumptions C09_named_inputs_partial.
Print Assumptions C09_emission_never_out_of_fuel_partial.
Print Assumptions C09_emission_no_index_error_partial.
Print Assumptions C09_emission_no_key_error_partial.
Print Assumptions C09_emission_no_attribute_error_partial.
Print Assumptions C09_last_stage_outcomes_partial.
Print Assumptions C09_matching_raises_only_in_greedy_partial.
Print Assumptions C09_encoder_outcomes_partial.
Print Assumptions C09_matching_raises_nothing_partial.
Print Assumptions C09_greedy_phase_returns.
Print Assumptions C09_matching_fails_only_in_set_operations_partial.
Print Assumptions C09_kekulize_returns.
Print Assumptions C09_encoder_total.
Print Assumptions C09_emission_no_assertion_error_partial.
Print Assumptions C09_emission_no_value_error_partial.
Print Assumptions C09_kekulize_leaves_integral_orders.
Print Assumptions C09_kekulize_fails_only_inside_matching_partial.
