(* C13 — [nop] padding is invisible to the decoder.
   Strings = render_frags frs : '.'-joined fragments, each the rendering of a
   list of bracketed symbols (any symbol text without brackets/dots).  Two
   strings whose fragments agree after deleting every [nop] symbol decode
   identically — result, error, and attribution list — under every table and
   both flags. *)
From Coq Require Import List NArith.
Import ListNotations.
From Selfies Require Import Base Atoms Decoder WfSpec NopFacts.

Theorem C13_nop_invisible : forall T compat attribute frs frs',
  frs <> [] -> Forall wfd frs -> Forall wfd frs' ->
  map (fun fr => filter not_nop (symbols fr)) frs = map (fun fr => filter not_nop (symbols fr)) frs' ->
  decoder T (render_frags frs) compat attribute = decoder T (render_frags frs') compat attribute.
Proof. exact nop_invisible. Qed.

(* one insertion at any position of any fragment (in an index position, inside
   a branch, next to a dot, at either end) *)
Theorem C13_single_insertion : forall T compat attribute pre a b post,
  Forall wfd (pre ++ (a ++ b) :: post) ->
  decoder T (render_frags (pre ++ (a ++ nop_item :: b) :: post)) compat attribute
  = decoder T (render_frags (pre ++ (a ++ b) :: post)) compat attribute.
Proof. exact nop_insertion_invisible. Qed.

Print Assumptions C13_nop_invisible.
Print Assumptions C13_single_insertion.
