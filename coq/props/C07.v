(* C07 — any string over the semantically robust alphabet is a valid molecule.
   Proved for EVERY accepted table (keys as set_semantic_constraints validates them, values >= 0, '?' present,
   keys short enough for int()) and EVERY finite sequence of alphabet symbols (proofs/AlphaClosure.v):
   (a) the alphabet as a set is exactly the documented one;
   (b) every atom symbol of the alphabet - neutral AND charged keys, the latter through the decimal print/parse
       round trip of proofs/DecFacts.v - is a symbol of the grammar with the capacity of its key;
   (c) the concatenation tokenises back into the same symbols and the decoder returns (raises nothing);
   (d) the graph it returns obeys the table at every atom (C01's invariant).
   (e) with C01's last mile (proofs/WriterFinal.v): the returned SMILES is valid under the table as judged by the
       independent reader, whenever fewer than 100 pairs of atoms are joined by ring bonds. *)
From Coq Require Import String List ZArith NArith Bool.
Import ListNotations.
From Selfies Require Import Base Generated Lex Atoms Decoder Config AlphaSpec AlphaFacts DecoderInv DecoderSum TokFacts DecFacts DeriveOk AlphaClosure Reader WriterFinal RingCount.
Local Open Scope string_scope.

Theorem C07_alphabet_is_documented_set : forall t y, In y (compute_alphabet t) <-> in_alphabet_spec t y.
Proof. exact alphabet_is_spec. Qed.

Theorem C07_neutral_symbols_in_grammar_partial : forall (t : table) e c b m,
  In e elements -> In (b, m) bond_prefix_orders -> assoc e t = Some c -> (m <= c)%Z ->
  exists a, process_atom_symbol t (lit "[" ++ b ++ e ++ lit "]")%list = Ok (Some (m, None, a, c)) /\
            a_element a = e /\ a_charge a = 0%Z.
Proof. exact neutral_alphabet_symbol_in_grammar. Qed.


Theorem C07_charged_symbols_in_grammar : forall (T : table) b m e sg c cap,
  In (b, m) bond_prefix_orders -> In e elements -> (sg = 43 \/ sg = 45)%N -> canonical c -> within_limit (length c) ->
  assoc (e ++ sg :: c)%list T = Some cap -> (0 <= cap)%Z ->
  exists a, process_atom_symbol T (lit "[" ++ b ++ e ++ sg :: c ++ lit "]")%list = Ok (Some (m, None, a, cap)).
Proof. exact charged_symbol_in_grammar. Qed.

(* closure: every string over the alphabet decodes without raising ... *)
Theorem C07_alphabet_strings_decode : forall T xs attribute,
  table_ok T -> Forall (fun x => In x (compute_alphabet T)) xs ->
  exists out, decoder T (concat xs) false attribute = Ok out.
Proof. intros T xs attribute HT Hxs. exact (alphabet_string_decodes T HT xs Hxs attribute). Qed.

(* ... to a graph in which every atom respects the capacity the table gives it *)
Theorem C07_alphabet_strings_obey_table_partial : forall T xs attribute m,
  table_ok T -> Forall (fun x => In x (compute_alphabet T)) xs ->
  decode_graph T (concat xs) false attribute = Ok m ->
  forall i a c at_, nth_error (atoms m) i = Some (a, c, at_) ->
    a_aromatic a = false /\ bonding_capacity T a = Ok c /\ (0 <= valence m i <= c)%Z.
Proof.
  intros T xs attribute m HT Hxs E. exact (graph_valence T m (alphabet_string_graph_ok T HT xs Hxs attribute m E)).
Qed.


(* ... and, with C01's last mile, the SMILES string itself is valid under the table (fewer than 100 ring pairs) *)
Theorem C07_alphabet_strings_valid : forall T xs attribute out maps,
  table_ok T -> Forall (fun x => In x (compute_alphabet T)) xs ->
  decoder T (concat xs) false attribute = Ok (out, maps) ->
  (forall m, decode_graph T (concat xs) false attribute = Ok m -> (length (ring_pairs m) < 100)%nat) ->
  valid_smiles_under T out = true.
Proof.
  intros T xs attribute out maps HT Hxs E Hr.
  apply (decoder_output_valid T (concat xs) false attribute out maps (proj1 HT)); [|exact E|exact Hr].
  apply tokenize_all_ok. exact (alphabet_string_digits_ok T HT xs Hxs).
Qed.

(* ... with the hypothesis on the input alone: fewer than 100 ring symbols (proofs/RingCount.v) *)
Theorem C07_alphabet_strings_valid_from_string : forall T xs attribute out maps,
  table_ok T -> Forall (fun x => In x (compute_alphabet T)) xs ->
  (ring_symbol_count (concat xs) false < 100)%nat ->
  decoder T (concat xs) false attribute = Ok (out, maps) ->
  valid_smiles_under T out = true.
Proof.
  intros T xs attribute out maps HT Hxs Hr E.
  apply (decoder_output_valid T (concat xs) false attribute out maps (proj1 HT)); [|exact E|].
  - apply tokenize_all_ok. exact (alphabet_string_digits_ok T HT xs Hxs).
  - intros m Hm. apply PeanoNat.Nat.le_lt_trans with (ring_symbol_count (concat xs) false); [exact (ring_pairs_le_symbols _ _ _ _ _ Hm)|exact Hr].
Qed.

(* the hypothesis is met by the presets (regenerated from the source on this run) *)
Example C07_presets_accepted : forall name T, In (name, T) preset_constraints -> table_ok T.
Proof.
  intros name T Hin. apply table_okb_sound.
  assert (F : forallb (fun p => table_okb (snd p)) preset_constraints = true) by (vm_compute; reflexivity).
  rewrite forallb_forall in F. exact (F (name, T) Hin).
Qed.

Print Assumptions C07_alphabet_is_documented_set.
Print Assumptions C07_neutral_symbols_in_grammar_partial.
Print Assumptions C07_charged_symbols_in_grammar.
Print Assumptions C07_alphabet_strings_decode.
Print Assumptions C07_alphabet_strings_obey_table_partial.
Print Assumptions C07_alphabet_strings_valid.
Print Assumptions C07_alphabet_strings_valid_from_string.
