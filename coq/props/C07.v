(* C07 — any string over the semantically robust alphabet is a valid molecule.
   Proved so far: (a) for every table, the alphabet as a set is exactly the
   documented one; (b) for every neutral key (all 118 elements, finite sweep) the
   atom symbols of the alphabet are grammar symbols with that capacity.
   Charged keys (E+n / E-n, n any canonical positive integer) and the closure
   "every string over the alphabet decodes without error to a table-obedient
   molecule" are validated per run by the extracted oracles (decode never raises;
   valid_smiles_under) and are the next proof stage (they need the decoder
   invariant of C01/C08). *)
From Coq Require Import String List ZArith NArith Bool.
Import ListNotations.
From Selfies Require Import Base Generated Atoms Config AlphaSpec AlphaFacts.
Local Open Scope string_scope.

Theorem C07_alphabet_is_documented_set : forall t y, In y (compute_alphabet t) <-> in_alphabet_spec t y.
Proof. exact alphabet_is_spec. Qed.

Theorem C07_neutral_symbols_in_grammar_partial : forall (t : table) e c b m,
  In e elements -> In (b, m) bond_prefix_orders -> assoc e t = Some c -> (m <= c)%Z ->
  exists a, process_atom_symbol t (lit "[" ++ b ++ e ++ lit "]")%list = Ok (Some (m, None, a, c)) /\
            a_element a = e /\ a_charge a = 0%Z.
Proof. exact neutral_alphabet_symbol_in_grammar. Qed.

Print Assumptions C07_alphabet_is_documented_set.
Print Assumptions C07_neutral_symbols_in_grammar_partial.
