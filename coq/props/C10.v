(* C10 — encoder output is always decodable, standardised and stable under re-encoding.
   STATUS (partial): ring / branch symbols carry a suffix 1..3 exactly when span-1 / length-1 is
   below 16^3, and the Q symbols decode back to the same number; the rest (every emitted atom
   symbol is in the decoder's grammar, standardisation, re-encoding stability) is validated per
   input by the extracted symbol_in_grammar and by the implementation's own three strings. *)
From Coq Require Import String List ZArith NArith Bool.
Import ListNotations.
From Selfies Require Import Base Generated Atoms Grammar Decoder PySet Matching Smiles Kekulize Encoder
  IndexSpec IndexCode Reader RoundTrip EncoderFacts PureFacts.
Local Open Scope string_scope.

Theorem C10_suffix_partial : forall n syms,
  get_selfies_from_index (Z.of_N n) = Ok syms -> ((length syms <= 3)%nat <-> (n < 4096)%N).
Proof. exact three_symbols_iff. Qed.

Theorem C10_Q_symbols_decode_back_partial : forall n : N,
  exists syms, get_selfies_from_index (Z.of_N n) = Ok syms /\ get_index_from_selfies (map Some syms) = n /\
               Forall (fun s => In s index_alphabet) syms.
Proof. intro n. destruct (from_index_spec n) as (syms & H1 & H2 & H3 & _). eauto. Qed.

Print Assumptions C10_suffix_partial.
Print Assumptions C10_Q_symbols_decode_back_partial.
