(* C10 — encoder output is always decodable, standardised and stable under re-encoding.
   PROVED for all inputs (proofs/EncShape.v, EncTokens.v, EncAtoms.v, EncGood.v, EncDecodes.v, EncStd.v):
   (a) DECODABLE.  Whatever SMILES the encoder accepts (either value of strict and of attribute) under an accepted
       table: every symbol it emits is an atom symbol printed from an atom the SMILES reader built (kekulize only clears
       the aromatic flag, the inversion pass only flips @/@@), an index symbol, a branch symbol or a ring symbol; each
       of them is read back by the decoder's own symbol reader (the atom symbol as the very atom it was printed from),
       the string tokenises back into exactly those symbols, and decoder() returns - under three hypotheses, each
       a computation the harness evaluates on every input it runs (spec/EncHyp.v):
         - every ring/branch symbol of the output carries the suffix 1, 2 or 3 (by C10_suffix_partial this is the
           property's "ring spans and branch lengths below 16^3");
         - no atom is written with more explicit hydrogens than the capacity the table gives its (element, charge);
           with strict=True the implementation rejects such input, but deriving that inside the model needs
           "bond counts are never negative", an invariant over the reader and kekulize that is NOT proved: hence _partial;
         - the input has fewer than 10^4300 characters (str() of a count of '+' signs is subject to the interpreter's
           digit limit just as int() is).
   (b) STANDARDISED.  The symbol is a function of the atom and injective on the atoms the encoder prints (two atoms
       get the same symbol exactly when they are equal), and the spellings the property names ([E+]/[E+1], [E++]/[E+2],
       [EH]/[EH1], [E]/[EH0], ...) are read as the same atom, for EVERY element, with and without an isotope.
   (c) ring / branch symbols carry a suffix 1..3 exactly when span-1 / length-1 is below 16^3, and the Q symbols
       decode back to the same number.
   NOT proved: stability of the string under decode/encode (validated per input by the implementation's own three
   strings and by the model's). *)
From Coq Require Import String List ZArith NArith Bool.
Import ListNotations.
From Selfies Require Import Base Generated Atoms Grammar Decoder PySet Matching Smiles Kekulize Encoder
  IndexSpec IndexCode Reader RoundTrip EncoderFacts PureFacts AlphaClosure WriterAtoms EncHyp EncShape EncAtoms EncGood EncDecodes EncStd EncRows EncSize EncStd2 EncStrict.
Local Open Scope string_scope.

Theorem C10_suffix_partial : forall n syms,
  get_selfies_from_index (Z.of_N n) = Ok syms -> ((length syms <= 3)%nat <-> (n < 4096)%N).
Proof. exact three_symbols_iff. Qed.

Theorem C10_Q_symbols_decode_back_partial : forall n : N,
  exists syms, get_selfies_from_index (Z.of_N n) = Ok syms /\ get_index_from_selfies (map Some syms) = n /\
               Forall (fun s => In s index_alphabet) syms.
Proof. intro n. destruct (from_index_spec n) as (syms & H1 & H2 & H3 & _). eauto. Qed.

Theorem C10_encoder_output_decodes_partial : forall T smiles strict attribute s maps attribute',
  table_ok T ->
  encoder T smiles strict attribute = Ok (s, maps) ->
  Qlen (length smiles) ->
  (forall m0, smiles_to_mol smiles attribute = Ok m0 -> Forall (cap_ok T) (atoms_of m0)) ->
  Forall suffix_small (flat_map fst (tokenize_all s false)) ->
  exists out, decoder T s false attribute' = Ok out.
Proof. exact encoder_output_decodes. Qed.

Theorem C10_encoder_output_decodes_checkable_partial : forall T smiles strict attribute s maps attribute',
  table_okb T = true ->
  encoder T smiles strict attribute = Ok (s, maps) ->
  Qlen (length smiles) ->
  match smiles_to_mol smiles attribute with Ok m0 => forallb (cap_okb T) (atoms_of m0) | Err _ => true end = true ->
  forallb suffix_smallb (flat_map fst (tokenize_all s false)) = true ->
  exists out, decoder T s false attribute' = Ok out.
Proof. exact encoder_output_decodes_checkable. Qed.

Example C10_decodes_hypotheses_met :
  let smi := lit "OC(=O)c1ccc(/C=C/[C@@H](F)[13CH3])cc1[N+](=O)[O-].[Na+]" in
  table_okb default_constraints = true /\ Qlen (length smi) /\
  match smiles_to_mol smi false with Ok m0 => forallb (cap_okb default_constraints) (atoms_of m0) | Err _ => false end = true /\
  match encoder default_constraints smi true false with
  | Ok (s, _) => forallb suffix_smallb (flat_map fst (tokenize_all s false)) && (10 <? length (flat_map fst (tokenize_all s false)))%nat
  | Err _ => false end = true.
Proof. cbv zeta. split; [vm_compute; reflexivity|]. split; [right; vm_compute; reflexivity|]. split; vm_compute; reflexivity. Qed.


(* the same with hypotheses on sizes only: every ring span is below the number of atoms (at most the number of input
   characters) and every branch length below the number of output symbols *)
Theorem C10_encoder_output_decodes_sized_partial : forall T smiles strict attribute s maps attribute',
  table_ok T ->
  encoder T smiles strict attribute = Ok (s, maps) ->
  (forall m0, smiles_to_mol smiles attribute = Ok m0 -> Forall (cap_ok T) (atoms_of m0)) ->
  (length smiles <= 4096)%nat ->
  (length (flat_map fst (tokenize_all s false)) <= 4096)%nat ->
  exists out, decoder T s false attribute' = Ok out.
Proof. exact encoder_output_decodes_sized. Qed.


(* strict=True (the default): the hypothesis on the atoms is discharged by the strict check itself.  A passed check bounds
   every stored count by 2*(capacity - explicit H); the count is the sum of the orders of the atom's bonds (C06,
   proofs/EncCount.v), hence not negative; so the explicit hydrogens fit.  Only the two size bounds remain. *)
Theorem C10_strict_encoder_output_decodes : forall T smiles attribute s maps attribute',
  table_ok T ->
  encoder T smiles true attribute = Ok (s, maps) ->
  (length smiles <= 4096)%nat ->
  (length (flat_map fst (tokenize_all s false)) <= 4096)%nat ->
  exists out, decoder T s false attribute' = Ok out.
Proof. exact encoder_output_decodes_strict. Qed.

(* (b) one symbol per atom, one atom per symbol *)
Theorem C10_symbol_determines_atom : forall a1 a2 t, AtomShape a1 -> IntOK a1 -> AtomShape a2 -> IntOK a2 ->
  atom_to_smiles a1 false = Ok t -> atom_to_smiles a2 false = Ok t -> a1 = a2.
Proof. exact symbol_determines_atom. Qed.

Theorem C10_printed_symbol_reads_back : forall bc a t, AtomShape a -> IntOK a -> In bc [[]; [61%N]; [35%N]; [47%N]; [92%N]] ->
  atom_to_smiles a false = Ok t ->
  process_atom_nocache (lit "[" ++ bc ++ t ++ lit "]")%list =
    Ok (Some ((fst (smiles_to_bond2 (hd_error bc)) / 2)%Z, snd (smiles_to_bond2 (hd_error bc)), a)).
Proof. exact sel_atom_parses. Qed.

Theorem C10_standard_spellings : forall el p q pre, In el elements -> In (p, q) spelling_pairs -> In pre [""; "13"] ->
  exists a, smiles_to_atom (br pre p el) = Ok (Some a) /\ smiles_to_atom (br pre q el) = Ok (Some a).
Proof. exact standard_spellings. Qed.

(* ... and therefore the same SELFIES string, under every table *)
Theorem C10_standard_spellings_same_string : forall T el p q pre, In el elements -> In (p, q) spelling_pairs -> In pre [""; "13"] ->
  exists x m1 m2, encoder T (br pre p el) false false = Ok (x, m1) /\ encoder T (br pre q el) false false = Ok (x, m2).
Proof. exact standard_spellings_encoder. Qed.

Print Assumptions C10_suffix_partial.
Print Assumptions C10_Q_symbols_decode_back_partial.
Print Assumptions C10_encoder_output_decodes_partial.
Print Assumptions C10_encoder_output_decodes_checkable_partial.
Print Assumptions C10_symbol_determines_atom.
Print Assumptions C10_printed_symbol_reads_back.
Print Assumptions C10_standard_spellings.
Print Assumptions C10_encoder_output_decodes_sized_partial.
Print Assumptions C10_strict_encoder_output_decodes.
Print Assumptions C10_standard_spellings_same_string.
