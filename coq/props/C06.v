(* C06 — strict encoding rejects exactly the constraint-violating molecules. *)
From Coq Require Import String List ZArith NArith Bool.
Import ListNotations.
From Selfies Require Import Base Generated Atoms Grammar Decoder PySet Matching Smiles Kekulize Encoder
  IndexSpec IndexCode Reader RoundTrip EncoderFacts PureFacts.
Local Open Scope string_scope.

(* the strict check raises iff some atom's bond count exceeds its capacity
   (counts in half units; capacity = table entry minus explicit hydrogens) *)
Theorem C06_strict_check_iff_over_capacity : forall capf m,
  (exists b, bond_constraint_errors capf m (m_atoms m) 0 = Ok b) ->
  (check_bond_constraints capf m = Err EncoderError <->
   exists k a at_, nth_error (m_atoms m) k = Some (a, at_) /\ over_capacity capf m k a).
Proof. exact strict_check_iff_over_capacity. Qed.

(* with strict=False the result does not depend on the constraints at all *)
Theorem C06_nonstrict_ignores_table : forall f g s attribute,
  encoder_c f s false attribute = encoder_c g s false attribute.
Proof. exact nonstrict_encoder_ignores_table. Qed.

(* the capacity consulted is a function of the table in force only (no stale memo, any history): see C11 *)
Theorem C06_strict_depends_on_lookup_pointwise : forall f g, (forall e c, f e c = g e c) ->
  forall s strict attribute, encoder_c f s strict attribute = encoder_c g s strict attribute.
Proof. exact encoder_c_ext. Qed.

Print Assumptions C06_strict_check_iff_over_capacity.
Print Assumptions C06_nonstrict_ignores_table.
Print Assumptions C06_strict_depends_on_lookup_pointwise.
