(* C06 — strict encoding rejects exactly the constraint-violating molecules.
   The first theorem is about the stored bond counts; proofs/EncCount.v closes the gap to the property's wording: for
   every input the reader and kekulize accept, the stored count of every atom IS the sum of the orders of its bonds
   (C06_counts_are_bond_order_sums), so the strict check raises iff for some atom that sum exceeds the capacity minus
   the explicit hydrogens (C06_strict_check_iff_bond_order_sum_over_capacity). *)
From Coq Require Import String List ZArith NArith Bool.
Import ListNotations.
From Selfies Require Import Base Generated Atoms Grammar Decoder PySet Matching Smiles Kekulize Encoder
  IndexSpec IndexCode Reader RoundTrip EncoderFacts PureFacts EncCount EncOutcomes.
Local Open Scope string_scope.

(* the strict check raises iff some atom's bond count exceeds its capacity
   (counts in half units; capacity = table entry minus explicit hydrogens) *)
Theorem C06_strict_check_iff_over_capacity : forall capf m,
  (exists b, bond_constraint_errors capf m (m_atoms m) 0 = Ok b) ->
  (check_bond_constraints capf m = Err EncoderError <->
   exists k a at_, nth_error (m_atoms m) k = Some (a, at_) /\ over_capacity capf m k a).
Proof. exact strict_check_iff_over_capacity. Qed.

(* with strict=False the result does not depend on the constraints at all *)
Theorem C06_nonstrict_ignores_table : forall f g s attribute,
  encoder_c f s false attribute = encoder_c g s false attribute.
Proof. exact nonstrict_encoder_ignores_table. Qed.

(* the capacity consulted is a function of the table in force only (no stale memo, any history): see C11 *)
Theorem C06_strict_depends_on_lookup_pointwise : forall f g, (forall e c, f e c = g e c) ->
  forall s strict attribute, encoder_c f s strict attribute = encoder_c g s strict attribute.
Proof. exact encoder_c_ext. Qed.

(* the stored counts are the bond-order sums: after the reader, and after kekulize (whose int() truncation of a count
   is exact because every aromatic bond at that atom has been lowered by then).  tot m i = sum, in half units, over the
   stored edges incident to atom i: the edges of row i, plus the chain edges of other rows that end at i. *)
Theorem C06_counts_are_bond_order_sums : forall smiles attributable m0 m1,
  smiles_to_mol smiles attributable = Ok m0 -> kekulize m0 = Ok (Some m1) ->
  (forall i c, nth_error (m_counts2 m0) i = Some c -> c = tot m0 i) /\
  (forall i c, nth_error (m_counts2 m1) i = Some c -> c = tot m1 i) /\ length (m_counts2 m1) = mg_len m1.
Proof.
  intros smiles attributable m0 m1 Ep Ek. destruct (parsed_kekulized_counts _ _ _ _ Ep Ek) as [[_ _ S0] [L1 A1 S1]].
  split; [exact S0|]. split; [exact S1|congruence].
Qed.

(* the property's first clause, on the graph the strict check sees: under any table with a '?' entry, the check raises
   EncoderError iff some atom's bond-order sum exceeds twice (capacity - explicit H), i.e. sum/2 + H > capacity; it
   raises nothing else *)
Theorem C06_strict_check_iff_bond_order_sum_over_capacity : forall T smiles attributable m0 m1,
  (exists v, assoc (lit "?") T = Some v) ->
  smiles_to_mol smiles attributable = Ok m0 -> kekulize m0 = Ok (Some m1) ->
  (check_bond_constraints (get_bonding_capacity T) m1 = Err EncoderError <->
   exists k a at_ cap, nth_error (m_atoms m1) k = Some (a, at_) /\ bonding_capacity T a = Ok cap /\ (2 * cap < tot m1 k)%Z).
Proof. exact strict_check_iff_bond_sum. Qed.

(* the property's first two clauses at the level of encoder() itself, for every SMILES the reader and kekulize accept
   and every table with a '?' entry: strict=True raises EncoderError iff some atom's bond-order sum exceeds
   2*(capacity - explicit H) and otherwise returns; strict=False returns *)
Theorem C06_strict_encoder_raises_iff_over_capacity : forall T smiles attribute m0 m1,
  (exists v, assoc (lit "?") T = Some v) ->
  smiles_to_mol smiles attribute = Ok m0 -> kekulize m0 = Ok (Some m1) ->
  ((exists r, encoder T smiles true attribute = Ok r) \/ encoder T smiles true attribute = Err EncoderError) /\
  (encoder T smiles true attribute = Err EncoderError <->
   exists k a at_ cap, nth_error (m_atoms m1) k = Some (a, at_) /\ bonding_capacity T a = Ok cap /\ (2 * cap < tot m1 k)%Z) /\
  (exists r, encoder T smiles false attribute = Ok r).
Proof.
  intros T smiles attribute m0 m1 Hq Ep Ek.
  destruct (encoder_fails_iff_strict_check T smiles true attribute m0 m1 Hq Ep Ek) as [A B].
  destruct (encoder_fails_iff_strict_check T smiles false attribute m0 m1 Hq Ep Ek) as [C D].
  split; [exact A|]. split.
  - rewrite B. rewrite <- (strict_check_iff_bond_sum T smiles attribute m0 m1 Hq Ep Ek). tauto.
  - destruct C as [C|C]; [exact C|]. apply D in C. destruct C; discriminate.
Qed.

Example C06_bond_sum_example :
  match smiles_to_mol (lit "c1ccccc1C(F)(F)(F)(F)F") false with
  | Ok m0 => match kekulize m0 with
             | Ok (Some m1) => (tot m0 0 =? 6)%Z && (tot m1 0 =? 6)%Z && (tot m1 6 =? 12)%Z &&
                               match check_bond_constraints (get_bonding_capacity default_constraints) m1 with Err EncoderError => true | _ => false end
             | _ => false end
  | Err _ => false end = true.
Proof. vm_compute. reflexivity. Qed.

Print Assumptions C06_strict_check_iff_over_capacity.
Print Assumptions C06_counts_are_bond_order_sums.
Print Assumptions C06_strict_check_iff_bond_order_sum_over_capacity.
Print Assumptions C06_strict_encoder_raises_iff_over_capacity.
Print Assumptions C06_nonstrict_ignores_table.
Print Assumptions C06_strict_depends_on_lookup_pointwise.
