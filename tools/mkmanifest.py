#!/usr/bin/env python3
"""writes /verif/MANIFEST.json from the table below (kept in one place so it stays valid)."""
import json

LEVEL_NOTE = ("Trusted: Coq 8.16.1 kernel (+vm_compute), translator/gen.py, ExtrOcamlBasic extraction + ocaml/driver.ml, "
              "the Python correspondence harness, CPython semantics as modelled. The hand-written model is tied to /repo by "
              "differential correspondence at the public API on every run; generated tables/state functions are re-proved against the current source.")

CLAIMED = {
 'C16': dict(
   text="Kernel-checked theorems for all n:N and all symbol sequences (props/C16.v: documented order of the generated table, decoder-side value = base-16 positional value with foreign/missing = 0, encoder-side round trip, no leading zero, shortest, <=3 symbols iff n<4096, negatives rejected) over the index tables regenerated from constants.py; model functions tied to grammar_rules.py by exhaustive correspondence (n<4096, 18^3 triples) and through decoder/encoder on crafted ring spans and branch lengths.",
   technique="Coq proof over regenerated index tables + exhaustive correspondence of the two conversions + public-API oracle",
   design_ref="5/C16"),
}

CLAIMED['C14'] = dict(
   text="Kernel-checked theorems over all well-formed strings (props/C14.v: split_selfies yields exactly the symbols and dots and does not raise, their concatenation is the input, len_selfies = number of items yielded, get_alphabet_from_selfies = symbol set without the dot; the language recogniser used as oracle is sound and complete). Model of selfies_utils.py tied to the code by differential correspondence on in-language and malformed strings (tokens yielded before a ValueError included); encoder outputs are checked to be in the language by the proved recogniser.",
   technique="Coq proof over a hand-written lexer model + differential correspondence + proved-recogniser oracle",
   design_ref="5/C14")

CLAIMED['C15'] = dict(
   text="Kernel-checked theorems for all well-formed strings x all bijective vocabularies x all pad lengths (props/C15.v: label list = indices then [nop] padding, length max(len,pad); one-hot rows are unit rows; encoding_to_selfies of either returns the string plus padding; batch functions are element-wise and mutually inverse; missing symbol -> KeyError, bad enc_type / ragged vector -> ValueError). Model of encoding_utils.py tied to the code by differential correspondence (values and exception classes) over random vocabularies incl. broken ones.",
   technique="Coq proof over a hand-written model of encoding_utils.py + differential correspondence + spec oracle",
   design_ref="5/C15")

CLAIMED['C13'] = dict(
   text="Kernel-checked theorem over all tables, both flags and all well-formed multi-fragment strings: two strings whose fragments agree after deleting every [nop] decode identically (result, error, attribution) - props/C13.v, with the single-insertion corollary for every position. Decoder model (decoder.py, grammar_rules.py, mol_graph.py, writer) tied to the code by exact-output correspondence on original and decorated strings; oracle = equality of the implementation's two answers, plus the selfies_to_encoding padding corollary.",
   technique="Coq proof over the decoder model (tokeniser filters [nop] before anything else) + differential correspondence + metamorphic oracle on the implementation",
   design_ref="5/C13")
CLAIMED['C18'] = dict(
   text="Kernel-checked theorems (props/C18.v): without legacy symbols the flag changes nothing; with the flag the result equals decoding the string with every symbol replaced by modernize_symbol's image; the generated update table equals the hand-written documented table; every legacy table symbol is rejected with DecoderError whenever the derivation reaches it without the flag. Model of compatibility.py tied by exact-output correspondence for both flag values; oracle = implementation with flag vs implementation on an independently modernised string.",
   technique="Coq proof over decoder + compatibility model, generated update table + differential correspondence + independent moderniser oracle",
   design_ref="5/C18")

CLAIMED['C01'] = dict(
   text="Kernel-checked END TO END for ALL strings, ALL tables with '?' and both values of attribute (props/C01.v: C01_valid_smiles, C01_valid_smiles_from_string): whenever fewer than 100 pairs of atoms are joined by ring bonds - in particular whenever the input has fewer than 100 ring symbols (proofs/RingCount.v: ring pairs <= ring symbols, so the hypotheses are on the input string alone; both values of compatible, proofs/CompatTotal.v) - the string the decoder model returns is accepted by the independent SMILES reader of spec/Reader.v and the molecule read from it is a simple graph in Kekule form in which every atom stays within the capacity the table gives its (element, charge) minus explicit H. Route (all by induction over unbounded inputs): valence / symmetry / forest invariants of the derivation and ring pass (DecoderInv, DecoderSum, DecoderTree); the two shapes of decoded atoms and read-back of their printed tokens incl. decimal print/parse (WriterAtoms, DecFacts); tokenisation of the printed string (WriterLex, WriterToks); simulation of the reader along the writer's traversal with ring labels paired through the ring log (WriterSim); validity of the molecule read (WriterFinal). The bound is sharp (99 five-rings valid, 100 not): at 100 ring bonds the writer prints %100 and the statement is REFUTED on the faithful model (known finding). Side condition symbols_short: no symbol longer than the interpreter's int() digit limit. State functions are regenerated from grammar_rules.py on every run; decoder model tied by exact-output correspondence (bounded-exhaustive + sampled, many tables, table histories); every implementation output is also judged by the extracted reader.",
   technique="Coq proof, end to end (graph invariants + writer/reader simulation: valid_smiles_under T (decoder s) = true below 100 ring pairs) + refutation witness at the bound + exact correspondence of the decoder model + extracted independent-reader oracle",
   design_ref="5/C01")
CLAIMED['C02'] = dict(
   text="Kernel-checked AS STATED, for all tables with '?' and all well-formed strings whose symbols are within the int() digit limit and which have fewer than 100 ring symbols (props/C02.v: C02_decoder_refines_grammar): whenever the decoder model returns a string, the documented derivation (spec/DocGrammar.v: grammar_eval, written from docs/source/derivation.rst independently of decoder.py - token array with a position pointer, neighbour slots, free valence recomputed from the slots) assigns a molecule g to the same symbols, and the molecule the independent SMILES reader reads from the decoder's output is exactly g - atoms in derivation order with all their fields, neighbour lists in written order, bond orders, cis/trans marks, ring flags (the writer's emission order is proved to be the creation order 0, 1, 2, ...: proofs/Preorder.v). Route, all by induction over unbounded inputs: the decoder's atom symbols are the documented grammar's with the same reading and alpha (DocAtoms); the derivation pass simulates the documented pointer machine dd step for step, budgets and index symbols included (DocDerive); the ring-forming pass simulates the documented second pass form_one, insertion positions and raised orders included (DocRings); the read-back of the printed string (WriterSim/WriterFinal, shared with C01) closes the loop (DocFinal). Also: every rejection is a DecoderError (both flags); strings whose symbols are all in the grammar are accepted; every rule's arithmetic and every symbol table (regenerated from source) equals the documented one; index code = documented base-16 code. The rejection sentence is a theorem too (C02_rejected_exactly_when, C02_rejection_refines_grammar; no ring bound needed): for well-formed strings the decoder accepts exactly the strings the documented derivation accepts, every rejection is a DecoderError and is a rejection of the documented derivation (DocConverse: what the documented grammar reads as an atom symbol the decoder reads as one, symbols that look like branch / ring symbols are no atom symbols; DocReject: error simulation; DocAccept). A string with an unclosed bracket is always rejected with DecoderError (C02_unclosed_bracket_rejected, proofs/Hanging.v). Not a theorem: the sharp bound (100 ring symbols: known finding of C01). The model is tied to the code by exact-output correspondence, and the extracted grammar_eval still judges every implementation output (bounded-exhaustive over a rule-covering symbol set, and sampled).",
   technique="Coq proof: refinement of the documented derivation (atom-symbol grammar, pointer-machine simulation of the derivation pass, simulation of the ring pass, reader/writer simulation) + extracted documented-grammar evaluator and independent reader as oracle (bounded-exhaustive + sampled) + exact correspondence",
   design_ref="5/C02")
CLAIMED['C08'] = dict(
   text="Kernel-checked for ALL strings and ALL accepted tables (props/C08.v, proofs/DecoderInv.v): the decoder model (both values of compatible - the legacy front end of compatibility.py is inside the theorem, proofs/CompatTotal.v - and attribute on or off) returns a SMILES or raises DecoderError - no other exception class, no partial operation reached, fuel never exhausted - and a decode leaves the table in force untouched (history model). The statement excludes what the model does not exhibit and the implementation does: int() refusing more than 4300 digits and the interpreter's recursion limit (both known findings, classifiers in the check). Outcome classes of implementation and model are compared on malformed / arbitrary / long / nested inputs with all flag combinations.",
   technique="Coq proof by invariant (crash-freedom of derivation, ring pass and writer on well-formed graphs) + outcome-class correspondence on malformed and arbitrary strings + known-finding classifiers",
   design_ref="5/C08")

CLAIMED['C11'] = dict(
   text="Kernel-checked theorems over ALL finite call histories of the history model (props/C11.v): after any history a decode/encode returns the pure function of its input and the current table (memo layer proved coherent along every history, the decoder/encoder proved to depend on the capacity lookup only pointwise); two histories ending in the same table translate alike (long history vs fresh interpreter); encoder(strict=False) is independent of table and history. Model tied to the code by replaying random histories in fresh interpreters (several hash seeds) against the model, against a fresh interpreter set to the final table, and against a pristine interpreter.",
   technique="Coq proof (cache-coherence invariant over histories + extensionality of the translators in the capacity lookup) + history replay correspondence in fresh interpreters",
   design_ref="5/C11")
CLAIMED['C12'] = dict(
   text="Kernel-checked theorems over all histories (props/C12.v): heap-separation invariant reachable everywhere (no library dict is ever in the caller's hands), set-then-get returns an equal dict and the current table is stable under everything but a successful set, presets never change, every rejected update leaves the world identical, which updates are rejected; the full no-aliasing statement is REFUTED on the faithful model for the alphabet set (known finding, with the 3-step witness). Model of bond_constraints.py tied by replaying random histories (every rejection reason, caller mutations, re-submitted mutated dicts) in fresh interpreters; oracle = abstract map in lock-step + comparison with a clean history of accepted updates.",
   technique="Coq proof (heap separation invariant over histories) + refutation witness + history replay correspondence + abstract-map oracle",
   design_ref="5/C12")

CLAIMED['C07'] = dict(
   text="Kernel-checked for EVERY accepted table and EVERY finite sequence of alphabet symbols (props/C07.v, proofs/AlphaClosure.v): the alphabet as a set is exactly the documented one; every atom symbol of the alphabet - neutral keys (all 118 elements, finite sweep lifted) and charged keys (any canonical charge, through a proved decimal print/parse round trip) - is a symbol of the grammar with its key's capacity; the concatenation tokenises back into the same symbols; the decoder returns (raises nothing); and every atom of the graph it returns respects the capacity the table gives it. The presets are proved to satisfy the hypothesis. The hypothesis 'key no longer than the interpreter's int() digit limit' is needed: without it the property fails on the implementation (known finding F-C07-int-digits, found by this proof). With C01's last mile the returned SMILES itself is proved valid under the table (C07_alphabet_strings_valid, fewer than 100 ring pairs). Aliasing of the returned set is a known finding shared with C12.",
   technique="Coq proof (alphabet content + symbol-by-symbol grammar membership incl. decimal round trip + lexer round trip + decoder success and valence invariant) + extracted-reader oracle on strings over the returned alphabet + exact correspondence",
   design_ref="5/C07")

CLAIMED['C03'] = dict(
   category='translation_validation',
   text="No full round-trip theorem yet (C03_full_statement is stated in props/C03.v; proof plan in DESIGN Appendix B). Proved for ALL accepted SMILES, tables and strict: the index arithmetic ring distances and branch lengths rest on, and the ATOM half at the level of symbols (C03_symbols_faithful_partial; proofs/EncAttr.v, EncFaithful.v): the k-th atom of the graph is the atom read from the k-th atom token of the input, kekulize and the inversion pass change only its aromatic flag / chirality tag, every atom symbol of the output is printed from one atom of that graph and the decoder's own symbol reader reads it back with the same element, isotope, charge and H count - no atom is altered on its way into the SELFIES string. Not proved: that the derivation keeps every symbol and rebuilds the same bonds. The property is decided per input by certified validation: an independent SMILES reader and the predicate same_molecule are Coq definitions (spec/Reader.v, spec/RoundTrip.v), extracted, and run on the input and on the implementation's decoder(encoder(s)) - atom for atom - over re-spelt and mutated molecules and several tables; encoder and decoder models are compared with the implementation on the same inputs.",
   technique="extracted Coq reader + same_molecule as per-input validator of the implementation's round trip; differential correspondence of the encoder model; Coq proof of the index arithmetic only",
   design_ref="5/C03")
CLAIMED['C04'] = dict(
   category='translation_validation',
   text="Proved for ALL accepted SMILES, tables and flags (C04_chain_marks_faithful_partial; proofs/EncStereo.v): the tree bond into the k-th atom stores the '/' or '\\' written before the k-th atom token, kekulize never touches marks, the atom symbol printed for that atom carries '=' / '#' or - a single bond - exactly that mark, and the decoder's symbol reader gets the same mark back from it; plus the parity lemma behind _should_invert_chirality. Ring-closure marks and tetrahedral tags are NOT theorems: No universal theorem yet (C04_full_statement stated; proved: adjacent exchange flips the parity _should_invert_chirality computes). Decided per input by the extracted same_stereo (tag xor parity of the written neighbour order incl. implicit H and ring-closure digits; marks per bond end) on input vs implementation round trip, over stereo-rich re-spellings (ring digits in any order, before/after branches, marks on chain, branch and ring bonds).",
   technique="extracted Coq stereo-parity oracle as per-input validator; differential correspondence of the encoder model; parity lemma in Coq",
   design_ref="5/C04")
CLAIMED['C05'] = dict(
   text="Proved for all inputs: whenever the reader and kekulize succeed NO atom is left aromatic (C05_kekulize_clears_every_aromatic_atom; proofs/EncArom.v: every aromatic atom is a key of the delocalisation subgraph from the moment it is added, keys are never removed, kekulize clears every key). Proof of the checker and of the refutation: the soundness statement for find_perfect_matching is FALSE of the faithful model (C05_statement_refuted, 8-node witness; known findings F-C05-*), is_perfect_matching is proved to mean 'fixed-point-free involution along edges'. Every accepted aromatic input is validated with the implementation's own answer as certificate: kekule_ok (independent pi-bond rule), has_kekule_structure (exact search) for rejections, acceptance equal across spellings of fused/bridged/cage templates incl. C60; the matching routine itself on random max-degree-3 graphs; model of kekulize / matching (CPython set order included) compared exactly.",
   technique="Coq refutation + proved checker run on implementation outputs (certified per-input validation) + exact correspondence of the matching/kekulisation model",
   design_ref="5/C05")
CLAIMED['C06'] = dict(
   text="Kernel-checked theorems (props/C06.v): the strict check raises iff some atom's bond count exceeds capacity minus explicit H; encoder(strict=False) is independent of the capacity lookup; encoder depends on the lookup only pointwise (no stale memo: C11). The parser/kekuliser invariant 'bond count = incident sum' is not proved: per input the kekulised molecule is re-read by the independent reader and judged against the table in force, and compared with the strict outcome at capacity-1/capacity/capacity+1 under presets and perturbed tables; non-strict output compared across tables.",
   technique="Coq proof of the strict-check equivalence and table-independence + independent bond count oracle on the implementation + exact correspondence",
   design_ref="5/C06")
CLAIMED['C09'] = dict(
   text="Kernel-checked for ALL strings (props/C09.v, proofs/ParserTotal.v): the first stage of the encoder - SMILES tokenizer and graph construction - never crashes: it returns a graph whose arrays agree in length, or the encoder raises EncoderError, or ValueError escapes from int() on an over-long digit field (interpreter limit, known finding); no IndexError / KeyError / AttributeError / AssertionError, loops terminate (invariant over the parser's stacks, ring log and placeholder slots). Also proved: parse errors and kekulisation failures surface as EncoderError; the inputs named by the property (C11, F:F; crashed before the repairs) are rejected with EncoderError. Not proved: crash freedom of the later stages (kekulisation, matching, emission): outcome classes of implementation and model are compared on broken / random / corner-case SMILES with all flag combinations on every run. Two interpreter limits are known findings. Last stage (proofs/EncRows.v, EncFuel.v): every edge of row j starts at j and tree edges lead to atoms of larger index, through the reader and kekulize; hence after the reader and kekulize have returned, the strict check, the inversion pass and the emitting walk never end in the model-only outcome OutOfFuel (C09_emission_never_out_of_fuel_partial).",
   technique="Coq proof by invariant (parser stage total) + outcome-class correspondence on malformed SMILES + known-finding classifiers",
   design_ref="5/C09")
CLAIMED['C10'] = dict(
   text="Kernel-checked for ALL SMILES, ALL accepted tables, both values of strict and attribute (props/C10.v: C10_encoder_output_decodes_partial and its _checkable_ form; proofs/EncShape.v, EncTokens.v, EncAtoms.v, EncGood.v, EncDecodes.v): whatever string the encoder model returns tokenises back into the symbols it emitted, each is a symbol the derivation accepts (the atom symbol is read back as the very atom it was printed from), and decoder() returns - under three hypotheses that the harness evaluates on every input through the extracted enc_hyp: ring/branch suffixes 1..3 (= spans and lengths below 16^3, C10_suffix_partial), no atom with more explicit H than its capacity (guaranteed by strict=True in the implementation, but 'bond counts never negative' is not proved in the model: hence partial), input shorter than 10^4300 characters; C10_encoder_output_decodes_sized_partial needs sizes only (input <= 16^3 characters, output <= 16^3 symbols) besides the H/capacity hypothesis. Standardised: symbol <-> atom is a bijection on the atoms the encoder prints (C10_symbol_determines_atom, C10_printed_symbol_reads_back) and the named spelling pairs ([E+]/[E+1], [E++]/[E+2], [EH]/[EH1], [E]/[EH0], ...) are read as the same atom and encode to the same SELFIES string under every table, for EVERY element, with and without isotope (C10_standard_spellings, C10_standard_spellings_same_string). Ring/branch suffix 1..3 iff span-1 / length-1 < 16^3; Q symbols decode back. NOT proved: stability under re-encoding - decided per input: re-encoding the decoded SMILES must reproduce the string; every emitted symbol is also judged by the extracted symbol_in_grammar; atom-field extremes (every element, charges to +-100, H0-H9 and two-digit H under big tables, isotopes with leading zeros) and spans at the 16^k boundaries.",
   technique="Coq proof (invariants of the SMILES reader, kekulize and the encoder walk; printer/grammar round trip of atom symbols; finite sweeps of index/branch/ring symbols against the generated tables) + extracted hypothesis evaluation per input + metamorphic oracles on the implementation + exact correspondence",
   design_ref="5/C10")
CLAIMED['C17'] = dict(
   category='proof',
   text="Kernel-checked for the decoder, ALL strings / tables / flags, no side condition (props/C17.v, proofs/AttrFacts.v): decoder(x, attribute=False) equals decoder(x, attribute=True) with the attribution erased - same outcome (value or exception class), same string, same output indices and tokens (simulation between the two runs through derivation, ring pass and writer); and the decoder's entries are TRUTHFUL (C17_decoder_attribution_truthful; proofs/AttrOut.v, AttrIn.v, AttrFinal.v): every output token is found in the output string ending at the reported character index, every contributing input token is the symbol at the reported position of the input ([nop] and '.' not counted), and every atom entry is attributed to its enclosing branch symbols followed by the atom symbol that created it. The ENCODER's non-interference is a theorem too (C17_encoder_attribute_erased, C17_encoder_same_string; proofs/EncErase.v): for ALL SMILES, tables and strict, encoder(s, attribute=False) is encoder(s, attribute=True) with the attribution erased - same outcome, same string, same indices and tokens (erasure commutes with every operation of the reader, kekulize, strict check, inversion pass and emitting walk). The encoder's TRUTHFULNESS is a theorem as well (C17_encoder_attribution_truthful; proofs/EncAttr.v): the reader stores with the k-th atom the (position, text) of the k-th atom token of the input from whose text it was read, kekulize and the inversion pass keep that pair, and in the emitting walk every atom symbol is printed from one atom of the graph and carries exactly its pair. So all four clauses of the property are kernel-checked for the model; on every run they are also judged on the implementation with independent tokenisations (incl. that a listed branch symbol really spans the atom symbol, by the documented index code); attribution lists of both directions are compared entry by entry with the model (multi-fragment, [nop]-padded, truncated indices, many rings).",
   technique="Coq proof (simulation: erasing attribution commutes with every decoder step; invariants for the truthfulness of every stored attribution through derivation, ring pass and writer) + exact correspondence of attribution lists with the model + independent-tokenisation oracle",
   design_ref="5/C17")
CLAIMED['C19'] = dict(
   text="Kernel-checked theorem about the cache protocol (props/C19.v): for every schedule of atomic cache operations (lru_cache call, dict get, dict set) of any number of concurrent calls, with arbitrary evictions, a coherent cache stays coherent and every call evaluates to its serial result; the shared mutable state found in the current source by the translator equals the modelled list (a new shared cache or scratch object breaks this equality). Assumed, not modelled: atomicity of those operations under the GIL. Thread stress (8 threads, 1 us switch interval, cold caches) vs serial run vs model as supporting evidence.",
   technique="Coq proof over an interleaving model of the cache protocol + generated shared-state footprint equality + thread stress vs serial vs model",
   design_ref="5/C19")

PENDING = {}
for i in range(1, 20):
    pid = 'C%02d' % i
    if pid not in CLAIMED:
        PENDING[pid] = "check not yet registered in this commit (framework under construction; see DESIGN.md section 5 for the plan)"

m = {
 "version": 1,
 "setup_cmd": "./setup.sh",
 "hooks": {
   "guard": "SELFIES_VERIF",
   "enable": "no hooks are needed: checks drive /repo's public API (PYTHONPATH=/repo) and import internals opportunistically",
   "baseline_off_cmd": "cd /repo && /venv/bin/python -m pytest -ra -q -p no:cacheprovider --timeout=900 --continue-on-collection-errors",
   "source_commits": [],
   "add_only": True
 },
 "engines": [
   {"name": "coq-model", "path": "coq/", "serves_properties": sorted(CLAIMED), "kind_free_text": "Coq 8.16.1 development: generated tables + hand-written executable model + spec + theorems"},
   {"name": "correspondence", "path": "harness/", "serves_properties": sorted(CLAIMED), "kind_free_text": "extracted OCaml model vs /repo at the public API; extracted oracles on implementation outputs"}
 ],
 "checks": [],
 "notes": "See DESIGN.md. ./check <id> --tier quick|thorough; replays under replays/; known findings in known_findings.json.",
 "not_applicable": [{"property_id": k, "reason": v} for k, v in sorted(PENDING.items())]
}
for pid in sorted(CLAIMED):
    c = CLAIMED[pid]
    m["checks"].append({
      "property_id": pid,
      "quick_cmd": "./check %s --tier quick" % pid,
      "thorough_cmd": "./check %s --tier thorough" % pid,
      "evidence_file": "evidence/%s.json" % pid,
      "replay_cmd_template": "./check %s --replay {path}" % pid,
      "engine": "coq-model",
      "level_claimed": {"category": c.get('category', 'proof'), "text": c['text'], "design_ref": c['design_ref']},
      "level_note": c.get('note', LEVEL_NOTE),
      "technique": c['technique'],
    })
json.dump(m, open('/verif/MANIFEST.json', 'w'), indent=1)
print('claimed', sorted(CLAIMED))
