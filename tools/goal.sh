#!/bin/bash
# usage: goal.sh <file.v relative to coq/> <line>  — show the proof state after <line>
cd /verif/coq
f=$1; n=$2
tmp=$(dirname $f)/Tmp_goal_$$.v
head -n $n $f > $tmp
printf '\nShow.\nAbort.\n' >> $tmp
coqc $(grep -E '^-Q' _CoqProject | tr '\n' ' ') -w -notation-overridden,-deprecated-hint-without-locality $tmp 2>&1 | tail -${3:-40}
rm -f $tmp $(dirname $f)/Tmp_goal_$$.* $(dirname $f)/.Tmp_goal_$$.aux
