#!/usr/bin/env python3
"""validate MANIFEST.json and evidence/*.json against the schemas (python3-vt has jsonschema)."""
import json, sys, glob, jsonschema
ok = True
try:
    jsonschema.validate(json.load(open('/verif/MANIFEST.json')), json.load(open('/root/.vp/MANIFEST.schema.json')))
    print('MANIFEST ok')
except Exception as e:
    ok = False; print('MANIFEST INVALID', str(e)[:500])
sch = json.load(open('/root/.vp/EVIDENCE.schema.json'))
for f in sorted(glob.glob('/verif/evidence/*.json')):
    try:
        jsonschema.validate(json.load(open(f)), sch); print(f, 'ok')
    except Exception as e:
        ok = False; print(f, 'INVALID', str(e)[:500])
sys.exit(0 if ok else 1)
