#!/usr/bin/env python3
"""mutant.py confirm <Cxx> <N>   : in the scratch worktree /tmp/mut/<Cxx>: apply out/mN.diff, run the core test files and demoN.py
                                    (must pass tests, demo must fail), un-apply, demo must pass.
   mutant.py check <Cxx> <name> [props...] : apply seeded/<name>/patch.diff to /repo, run ./check for the given properties
                                    (default: the one in meta.json), ALWAYS undo, report.
   mutant.py keep <Cxx> <N> <name> : copy a confirmed mutant into /verif/seeded/<name>/"""
import json, os, subprocess, sys, shutil

def sh(cmd, **kw):
    return subprocess.run(cmd, shell=True, stdout=subprocess.PIPE, stderr=subprocess.STDOUT, text=True, **kw)

def confirm(pid, n):
    wt = '/tmp/mut/%s' % pid
    env = dict(os.environ, PYTHONPATH=wt, PYTHONHASHSEED='0')
    assert sh('git -C %s status --short -- selfies tests' % wt).stdout.strip() == '', 'worktree not clean'
    r0 = sh('cd %s && /venv/bin/python out/demo%s.py' % (wt, n), env=env)
    a = sh('git -C %s apply out/m%s.diff' % (wt, n))
    assert a.returncode == 0, a.stdout
    try:
        t = sh('cd %s && /venv/bin/python -m pytest -q -p no:cacheprovider tests/test_selfies.py tests/test_selfies_utils.py tests/test_specific_cases.py 2>&1 | tail -1' % wt, env=env)
        d = sh('cd %s && /venv/bin/python -m pytest -q -p no:cacheprovider tests/test_on_datasets.py --dataset_samples 300 2>&1 | tail -1' % wt, env=env)
        r1 = sh('cd %s && /venv/bin/python out/demo%s.py' % (wt, n), env=env)
    finally:
        sh('git -C %s checkout -- .' % wt)
    ok = r0.returncode == 0 and r1.returncode != 0 and ' passed' in t.stdout and 'failed' not in t.stdout and '2 failed' in d.stdout
    print(json.dumps({'mutant': '%s/m%s' % (pid, n), 'demo_clean_rc': r0.returncode, 'demo_mutant_rc': r1.returncode,
                      'core_tests': t.stdout.strip(), 'dataset_tests': d.stdout.strip(), 'confirmed': ok}))
    return ok, {'core_tests': t.stdout.strip(), 'dataset_tests': d.stdout.strip(), 'demo_clean_rc': r0.returncode,
                'demo_mutant_rc': r1.returncode, 'demo_output': r1.stdout[-600:]}

def keep(pid, n, name):
    ok, info = confirm(pid, n)
    if not ok:
        print('NOT confirmed; not kept'); return 1
    wt = '/tmp/mut/%s/out' % pid
    dst = '/verif/seeded/%s' % name
    os.makedirs(dst, exist_ok=True)
    shutil.copy('%s/m%s.diff' % (wt, n), dst + '/patch.diff')
    shutil.copy('%s/demo%s.py' % (wt, n), dst + '/demo.py')
    meta = json.load(open('%s/m%s.json' % (wt, n)))
    meta['confirmed'] = info
    meta['ran'] = 'tools/mutant.py confirm %s %s (core test files green, dataset test 2 always-empty failures only, demo exit 0 clean / non-zero with the change)' % (pid, n)
    json.dump(meta, open(dst + '/meta.json', 'w'), indent=1)
    print('kept', dst)
    return 0

def check(name, props):
    d = '/verif/seeded/%s' % name
    meta = json.load(open(d + '/meta.json'))
    props = props or [meta['property']]
    assert sh('git -C /repo status --short -- selfies').stdout.strip() == '', '/repo not clean'
    a = sh('git -C /repo apply %s/patch.diff' % d)
    assert a.returncode == 0, a.stdout
    out = {}
    try:
        for p in props:
            r = sh('cd /verif && timeout 1500 ./check %s --tier quick' % p)
            lines = [l for l in r.stdout.split('\n') if l.startswith('VIOLATION') or l.startswith('[%s]' % p)]
            out[p] = {'rc': r.returncode, 'lines': lines[-3:]}
    finally:
        sh('git -C /repo checkout -- .')
    print(json.dumps({name: out}, indent=1))
    meta.setdefault('detected_by', {})
    for p, v in out.items():
        meta['detected_by'][p] = {'rc': v['rc'], 'violation': [l for l in v['lines'] if l.startswith('VIOLATION')]}
    json.dump(meta, open(d + '/meta.json', 'w'), indent=1)

if __name__ == '__main__':
    cmd = sys.argv[1]
    if cmd == 'confirm':
        sys.exit(0 if confirm(sys.argv[2], sys.argv[3])[0] else 1)
    elif cmd == 'keep':
        sys.exit(keep(sys.argv[2], sys.argv[3], sys.argv[4]))
    elif cmd == 'check':
        check(sys.argv[2], sys.argv[3:])
