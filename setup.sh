#!/bin/bash
# Build the whole framework offline from files on disk: regenerate Generated.v
# from /repo, compile every Coq file (full .vo), extract, build the OCaml driver.
set -e
cd "$(dirname "$0")"
mkdir -p build replays evidence
export PYTHONHASHSEED=0
PYTHONPATH=/repo /venv/bin/python translator/gen.py /repo coq/gen/Generated.v build/gen_status.json
cd coq
coq_makefile -f _CoqProject -o Makefile >/dev/null
timeout 3000 make -j16 extract/Extract.vo
cp model.ml model.mli ../ocaml/
(cd ../ocaml && ocamlfind ocamlopt -O2 -w -a model.mli model.ml driver.ml -o driver 2>/dev/null || ocamlfind ocamlopt -w -a model.mli model.ml driver.ml -o driver)
/venv/bin/python - <<'PY'
import hashlib
h = hashlib.sha256(open('/verif/coq/model.ml','rb').read() + open('/verif/ocaml/driver.ml','rb').read()).hexdigest()
open('/verif/ocaml/.stamp','w').write(h)
PY
# proofs: keep going so that one broken proof does not hide the others (each check reports its own cone)
timeout 3400 make -j16 -k || true
echo setup done
