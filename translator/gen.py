#!/usr/bin/env python
"""Translator: /repo source  ->  coq/gen/Generated.v   (run on every check).

Three kinds of output (DESIGN 2.3a):
  1. tables, by *evaluating* the current source (value level);
  2. the straight-line integer state functions, by walking their `ast`
     (fail-closed: an unrecognised construct aborts the translation of that
     function and records it as untranslated; nothing is guessed);
  3. the shared-mutable-state footprint of the package, by `ast`.
Also records facts about the running interpreter that the model depends on
(Unicode digit classes, int<->str digit limit).

Usage: gen.py <repo> <out.v> <status.json>
Must run with the interpreter that runs the library and PYTHONPATH=<repo>.
"""
import ast
import json
import os
import sys
import unicodedata  # noqa: F401  (kept for clarity; classes come from str methods)


# ----------------------------------------------------------------- emit helpers
def cstr(s):
    return "[" + ";".join(str(ord(c)) for c in s) + "]%N"


def cz(i):
    return "(%d)%%Z" % i


def clist(items):
    return "[" + "; ".join(items) + "]"


def copt(x, f):
    return "None" if x is None else "(Some %s)" % f(x)


# ----------------------------------------------------------------- 2. ast subset
class Unsupported(Exception):
    pass


def expr(e, env):
    """(coq_text, type) with type in {'Z','optZ','bool'}"""
    if isinstance(e, ast.Constant):
        if e.value is None:
            return ('None', 'optZ')
        if isinstance(e.value, bool):
            return ('true' if e.value else 'false', 'bool')
        if isinstance(e.value, int):
            return ('(%d)' % e.value, 'Z')
        raise Unsupported(ast.dump(e))
    if isinstance(e, ast.Name):
        if e.id not in env:
            raise Unsupported('free name ' + e.id)
        return (e.id, env[e.id])
    if isinstance(e, ast.BinOp) and isinstance(e.op, (ast.Add, ast.Sub, ast.Mult)):
        a, ta = expr(e.left, env)
        b, tb = expr(e.right, env)
        if ta != 'Z' or tb != 'Z':
            raise Unsupported('arith on non-int')
        op = {ast.Add: '+', ast.Sub: '-', ast.Mult: '*'}[type(e.op)]
        return ('(%s %s %s)' % (a, op, b), 'Z')
    if (isinstance(e, ast.Call) and isinstance(e.func, ast.Name)
            and e.func.id in ('min', 'max') and not e.keywords and len(e.args) >= 2):
        parts = [expr(a, env) for a in e.args]
        if any(t != 'Z' for _, t in parts):
            raise Unsupported('min/max on non-int')
        f = 'Z.min' if e.func.id == 'min' else 'Z.max'
        acc = parts[0][0]
        for p, _ in parts[1:]:
            acc = '(%s %s %s)' % (f, acc, p)
        return (acc, 'Z')
    if isinstance(e, ast.Compare):
        items = [e.left] + e.comparators
        parts = []
        for l, op, r in zip(items, e.ops, items[1:]):
            a, ta = expr(l, env)
            b, tb = expr(r, env)
            if ta != 'Z' or tb != 'Z':
                raise Unsupported('compare non-int')
            o = {ast.Eq: '=?', ast.Lt: '<?', ast.LtE: '<=?', ast.Gt: '>?',
                 ast.GtE: '>=?'}.get(type(op))
            if o is None:
                raise Unsupported('cmp op')
            parts.append('(%s %s %s)' % (a, o, b))
        return (' && '.join(parts) if len(parts) == 1 else '(' + ' && '.join(parts) + ')', 'bool')
    if isinstance(e, ast.BoolOp):
        parts = [expr(v, env) for v in e.values]
        if any(t != 'bool' for _, t in parts):
            raise Unsupported('boolop on non-bool')
        o = ' && ' if isinstance(e.op, ast.And) else ' || '
        return ('(' + o.join(p for p, _ in parts) + ')', 'bool')
    if isinstance(e, ast.IfExp):
        c, tc = expr(e.test, env)
        a, ta = expr(e.body, env)
        b, tb = expr(e.orelse, env)
        if tc != 'bool':
            raise Unsupported('cond')
        if ta == tb:
            return ('(if %s then %s else %s)' % (c, a, b), ta)
        if {ta, tb} == {'Z', 'optZ'}:
            def lift(x, t):
                return x if t == 'optZ' else '(Some %s)' % x
            return ('(if %s then %s else %s)' % (c, lift(a, ta), lift(b, tb)), 'optZ')
        raise Unsupported('ifexp types')
    raise Unsupported(ast.dump(e)[:80])


def func(fn):
    env = {a.arg: 'Z' for a in fn.args.args}
    if fn.args.vararg or fn.args.kwonlyargs or fn.args.defaults or fn.args.kwarg:
        raise Unsupported('args')
    lines, pre = [], []
    body = list(fn.body)
    if (body and isinstance(body[0], ast.Expr) and isinstance(body[0].value, ast.Constant)
            and isinstance(body[0].value.value, str)):
        body = body[1:]
    ret = None
    for st in body:
        if ret is not None:
            raise Unsupported('code after return')
        if isinstance(st, ast.Assert):
            c, t = expr(st.test, env)
            if t != 'bool':
                raise Unsupported('assert type')
            pre.append(c)
        elif (isinstance(st, ast.Assign) and len(st.targets) == 1
              and isinstance(st.targets[0], ast.Name)):
            v, t = expr(st.value, env)
            n = st.targets[0].id
            lines.append('let %s := %s in' % (n, v))
            env[n] = t
        elif (isinstance(st, ast.If) and not st.orelse
              and all(isinstance(x, ast.Assign) and len(x.targets) == 1
                      and isinstance(x.targets[0], ast.Name)
                      and x.targets[0].id in env for x in st.body)):
            c, tc = expr(st.test, env)
            for x in st.body:
                v, t = expr(x.value, env)
                n = x.targets[0].id
                if t != env[n]:
                    raise Unsupported('phi type')
                lines.append('let %s := (if %s then %s else %s) in' % (n, c, v, n))
        elif isinstance(st, ast.Return) and isinstance(st.value, ast.Tuple):
            parts = [expr(x, env) for x in st.value.elts]
            tys = {'Z': 'Z', 'optZ': 'option Z', 'bool': 'bool'}
            ret = ('(' + ', '.join(p for p, _ in parts) + ')',
                   ' * '.join(tys[t] for _, t in parts))
        else:
            raise Unsupported(ast.dump(st)[:100])
    if ret is None:
        raise Unsupported('no return')
    args = ' '.join(a.arg for a in fn.args.args)
    out = 'Definition %s (%s : Z) : %s :=\n  %s\n  %s.\n' % (
        fn.name, args, ret[1], '\n  '.join(lines), ret[0])
    out += 'Definition %s_pre (%s : Z) : bool := %s.\n' % (
        fn.name, args, ' && '.join(pre) if pre else 'true')
    return out


# Last committed hand copies, used (and reported) when a function leaves the subset.
FALLBACK = {
    'next_atom_state': '''Definition next_atom_state (bond_order bond_cap state : Z) : Z * option Z :=
  let bond_order := (if (state =? (0)) then (0) else bond_order) in
  let bond_order := (Z.min (Z.min bond_order state) bond_cap) in
  let bonds_left := (bond_cap - bond_order) in
  let next_state := (if (bonds_left =? (0)) then None else (Some bonds_left)) in
  (bond_order, next_state).
Definition next_atom_state_pre (bond_order bond_cap state : Z) : bool := true.
''',
    'next_branch_state': '''Definition next_branch_state (branch_type state : Z) : Z * Z :=
  let branch_init_state := (Z.min (state - (1)) branch_type) in
  let next_state := (state - branch_init_state) in
  (branch_init_state, next_state).
Definition next_branch_state_pre (branch_type state : Z) : bool := ((1) <=? branch_type) && (branch_type <=? (3)) && (state >? (1)).
''',
    'next_ring_state': '''Definition next_ring_state (ring_type state : Z) : Z * option Z :=
  let bond_order := (Z.min ring_type state) in
  let bonds_left := (state - bond_order) in
  let next_state := (if (bonds_left =? (0)) then None else (Some bonds_left)) in
  (bond_order, next_state).
Definition next_ring_state_pre (ring_type state : Z) : bool := (state >? (0)).
''',
}


# ----------------------------------------------------------------- 3. footprint
MUTATORS = {'append', 'add', 'update', 'clear', 'pop', 'setdefault', 'extend',
            'insert', 'remove', 'discard', 'popitem', 'sort', 'reverse',
            'appendleft', 'popleft', 'cache_clear'}


PROCESS_GLOBAL_SETTERS = {('sys', 'setrecursionlimit'), ('sys', 'setswitchinterval'), ('sys', 'set_int_max_str_digits'), ('sys', 'settrace'),
                          ('sys', 'setprofile'), ('os', 'chdir'), ('os', 'putenv'), ('locale', 'setlocale'), ('random', 'seed'),
                          ('warnings', 'simplefilter'), ('warnings', 'filterwarnings'), ('gc', 'disable'), ('gc', 'enable'), ('gc', 'set_threshold')}


def footprint(repo):
    """module-level mutable bindings, lru_caches, and writers to them."""
    pkg = os.path.join(repo, 'selfies')
    shared = []   # (module, name, kind)
    writers = []  # (module, function, name, how)
    for root, _, files in os.walk(pkg):
        for f in sorted(files):
            if not f.endswith('.py'):
                continue
            path = os.path.join(root, f)
            mod = os.path.relpath(path, repo)[:-3].replace(os.sep, '.')
            tree = ast.parse(open(path).read())
            modnames = {}
            for node in tree.body:
                if isinstance(node, ast.Assign):
                    for t in node.targets:
                        if isinstance(t, ast.Name):
                            v = node.value
                            kind = None
                            if isinstance(v, (ast.Dict, ast.List, ast.Set, ast.DictComp,
                                              ast.ListComp, ast.SetComp)):
                                kind = 'container'
                            elif isinstance(v, ast.Call):
                                kind = 'call'
                            elif isinstance(v, ast.Subscript):
                                kind = 'alias'
                            if kind:
                                modnames[t.id] = kind
                if isinstance(node, (ast.FunctionDef,)):
                    for d in node.decorator_list:
                        if 'lru_cache' in ast.dump(d) or 'cache' == getattr(d, 'attr', ''):
                            shared.append((mod, node.name, 'lru_cache'))
                if isinstance(node, ast.ClassDef):
                    for sub in node.body:
                        if isinstance(sub, ast.FunctionDef):
                            for d in sub.decorator_list:
                                if 'lru_cache' in ast.dump(d):
                                    shared.append((mod, node.name + '.' + sub.name, 'lru_cache'))
            # who writes module-level names from inside functions?
            written = set()
            for node in ast.walk(tree):
                if isinstance(node, ast.FunctionDef):
                    globs = set()
                    for sub in ast.walk(node):
                        if isinstance(sub, ast.Global):
                            globs.update(sub.names)
                    for sub in ast.walk(node):
                        tgt = None
                        how = None
                        if isinstance(sub, (ast.Assign, ast.AugAssign)):
                            tgts = sub.targets if isinstance(sub, ast.Assign) else [sub.target]
                            for t in tgts:
                                if isinstance(t, ast.Subscript) and isinstance(t.value, ast.Name) \
                                        and t.value.id in modnames and not _is_local(node, t.value.id):
                                    tgt, how = t.value.id, 'setitem'
                                elif isinstance(t, ast.Name) and t.id in globs:
                                    tgt, how = t.id, 'rebind'
                                if tgt:
                                    writers.append((mod, node.name, tgt, how))
                                    written.add(tgt)
                                    tgt = None
                        elif isinstance(sub, ast.Call) and isinstance(sub.func, ast.Attribute) \
                                and isinstance(sub.func.value, ast.Name) \
                                and (sub.func.value.id, sub.func.attr) in PROCESS_GLOBAL_SETTERS:
                            # state of the whole interpreter (shared by every thread and every later call): e.g. sys.setrecursionlimit
                            n = sub.func.value.id + '.' + sub.func.attr
                            writers.append((mod, node.name, n, 'process-global'))
                            shared.append((mod, n, 'process-global'))
                        elif isinstance(sub, ast.Call) and isinstance(sub.func, ast.Attribute) \
                                and sub.func.attr in MUTATORS and isinstance(sub.func.value, ast.Name):
                            n = sub.func.value.id
                            if (n in modnames and not _is_local(node, n)) or sub.func.attr == 'cache_clear':
                                writers.append((mod, node.name, n, sub.func.attr))
                                written.add(n)
            for n in sorted(written):
                if n in modnames:
                    shared.append((mod, n, 'written-' + modnames[n]))
    return sorted(set(shared)), sorted(set(writers))


def _is_local(fn, name):
    for sub in ast.walk(fn):
        if isinstance(sub, ast.Assign):
            for t in sub.targets:
                if isinstance(t, ast.Name) and t.id == name:
                    return True
        if isinstance(sub, ast.arg) and sub.arg == name:
            return True
    return False


# ----------------------------------------------------------------- unicode classes
def ranges(pred):
    out = []
    start = None
    for cp in range(0x110000):
        ok = pred(chr(cp))
        if ok and start is None:
            start = cp
        elif not ok and start is not None:
            out.append((start, cp - 1))
            start = None
    if start is not None:
        out.append((start, 0x10FFFF))
    return out


def crange(rs):
    return clist("(%d,%d)" % r for r in rs) + "%N"


# ----------------------------------------------------------------- main
def main():
    repo, out_path, status_path = sys.argv[1:4]
    sys.path.insert(0, repo)
    status = {'tables': {}, 'functions': {}, 'footprint': {}}
    out = []
    w = out.append
    w("(* GENERATED by translator/gen.py from %s — do not edit. *)" % repo)
    w("From Coq Require Import ZArith NArith List Bool.")
    w("Import ListNotations.")
    w("Local Open Scope Z_scope.")
    w("")

    def get(modname, name):
        import importlib
        try:
            m = importlib.import_module(modname)
            v = getattr(m, name)
            status['tables'][name] = 'evaluated'
            return v
        except Exception as e:  # fail closed: table missing -> abort
            status['tables'][name] = 'MISSING: %r' % (e,)
            raise

    C = 'selfies.constants'
    ELEMENTS = get(C, 'ELEMENTS')
    w("Definition elements : list (list N) := %s." % clist(cstr(e) for e in sorted(ELEMENTS)))
    w("Definition organic_subset : list (list N) := %s." % clist(cstr(e) for e in sorted(get(C, 'ORGANIC_SUBSET'))))
    w("Definition aromatic_subset : list (list N) := %s." % clist(cstr(e) for e in sorted(get(C, 'AROMATIC_SUBSET'))))
    av = get(C, 'AROMATIC_VALENCES')
    w("Definition aromatic_valences : list (list N * list Z) := %s." % clist(
        "(%s, %s)" % (cstr(k), clist(cz(x) for x in v)) for k, v in av.items()))
    ve = get(C, 'VALENCE_ELECTRONS')
    w("Definition valence_electrons : list (list N * Z) := %s." % clist(
        "(%s, %s)" % (cstr(k), cz(v)) for k, v in ve.items()))
    ia = get(C, 'INDEX_ALPHABET')
    w("Definition index_alphabet : list (list N) := %s." % clist(cstr(e) for e in ia))
    ic = get(C, 'INDEX_CODE')
    w("Definition index_code : list (list N * N) := %s." % clist(
        "(%s, %d%%N)" % (cstr(k), v) for k, v in ic.items()))

    B = 'selfies.bond_constraints'
    pc = get(B, '_PRESET_CONSTRAINTS')
    w("Definition preset_constraints : list (list N * list (list N * Z)) := %s." % clist(
        "(%s, %s)" % (cstr(name), clist("(%s, %s)" % (cstr(k), cz(v)) for k, v in d.items()))
        for name, d in pc.items()))
    dc = get(B, '_DEFAULT_CONSTRAINTS')
    w("Definition default_constraints : list (list N * Z) := %s." % clist(
        "(%s, %s)" % (cstr(k), cz(v)) for k, v in dc.items()))
    # which preset the library starts in (value-level)
    import selfies.bond_constraints as bc
    cur = bc._current_constraints
    w("Definition initial_constraints : list (list N * Z) := %s." % clist(
        "(%s, %s)" % (cstr(k), cz(v)) for k, v in cur.items()))
    status['tables']['_current_constraints'] = 'evaluated'

    G = 'selfies.grammar_rules'
    brc = get(G, '_PROCESS_BRANCH_CACHE')
    w("Definition branch_cache : list (list N * (Z * nat)) := %s." % clist(
        "(%s, (%s, %d%%nat))" % (cstr(k), cz(v[0]), v[1]) for k, v in brc.items()))
    rc = get(G, '_PROCESS_RING_CACHE')

    def cst(x):
        return copt(x, lambda c: "%d%%N" % ord(c))
    w("Definition ring_cache : list (list N * (Z * nat * (option N * option N))) := %s." % clist(
        "(%s, (%s, %d%%nat, (%s, %s)))" % (cstr(k), cz(v[0]), v[1], cst(v[2][0]), cst(v[2][1]))
        for k, v in rc.items()))
    ac = get(G, '_PROCESS_ATOM_CACHE')
    # only the symbols seeded at import time (the cache grows at run time)
    import importlib
    gm = importlib.import_module(G)
    seeded = sorted(gm._build_atom_cache().keys()) if hasattr(gm, '_build_atom_cache') else sorted(ac.keys())
    w("Definition atom_cache_seed : list (list N) := %s." % clist(cstr(k) for k in seeded))
    w("Definition selfies_atom_pattern : list N := %s." % cstr(get(G, 'SELFIES_ATOM_PATTERN').pattern))

    S = 'selfies.utils.smiles_utils'
    w("Definition smiles_bracketed_atom_pattern : list N := %s." % cstr(get(S, 'SMILES_BRACKETED_ATOM_PATTERN').pattern))
    sbo = get(S, 'SMILES_BOND_ORDERS')
    for k, v in sbo.items():
        if (2 * v) != int(2 * v):
            raise SystemExit("bond order not a multiple of 1/2: %r" % (v,))
    w("(* bond orders in HALF units: ':' = 3 means 1.5 *)")
    w("Definition smiles_bond_orders2 : list (N * Z) := %s." % clist(
        "(%d%%N, %s)" % (ord(k), cz(int(2 * v))) for k, v in sbo.items()))
    w("Definition smiles_stereo_bonds : list N := %s." % clist(
        "%d%%N" % ord(k) for k in sorted(get(S, 'SMILES_STEREO_BONDS'))))

    ut = get('selfies.compatibility', '_SYMBOL_UPDATE_TABLE')
    w("Definition symbol_update_table : list (list N * list N) := %s." % clist(
        "(%s, %s)" % (cstr(k), cstr(v)) for k, v in ut.items()))

    # interpreter facts
    w("")
    w("(* facts about the running interpreter %s *)" % sys.version.split()[0])
    lim = sys.get_int_max_str_digits() if hasattr(sys, 'get_int_max_str_digits') else 0
    w("Definition int_max_str_digits : N := %d%%N." % lim)
    zeros = [cp for cp in range(0x110000) if chr(cp).isdecimal() and unicodedata.decimal(chr(cp)) == 0]
    # sanity: every decimal char is zero+0..9
    for z in zeros:
        for d in range(10):
            assert chr(z + d).isdecimal() and unicodedata.decimal(chr(z + d)) == d
    assert sum(1 for cp in range(0x110000) if chr(cp).isdecimal()) == 10 * len(zeros)
    w("Definition decimal_zeros : list N := %s%%N." % clist(str(z) for z in zeros))
    w("Definition isdigit_ranges : list (N * N) := %s." % crange(ranges(str.isdigit)))
    w("Definition isnumeric_ranges : list (N * N) := %s." % crange(ranges(str.isnumeric)))
    w("Definition isalpha_ranges : list (N * N) := %s." % crange(ranges(str.isalpha)))
    status['interpreter'] = {'version': sys.version.split()[0], 'int_max_str_digits': lim,
                             'decimal_zero_points': len(zeros)}

    # 2. functions
    w("")
    w("(* straight-line integer functions translated from grammar_rules.py *)")
    src = open(os.path.join(repo, 'selfies', 'grammar_rules.py')).read()
    mod = ast.parse(src)
    found = {}
    for node in mod.body:
        if isinstance(node, ast.FunctionDef) and node.name in FALLBACK:
            found[node.name] = node
    for name in ('next_atom_state', 'next_branch_state', 'next_ring_state'):
        try:
            if name not in found:
                raise Unsupported('function not found')
            text = func(found[name])
            status['functions'][name] = 'translated'
        except Unsupported as e:
            text = FALLBACK[name]
            status['functions'][name] = 'untranslated: %s (fallback copy in force)' % e
        w(text)

    # 3. footprint
    shared, writers = footprint(repo)
    status['footprint'] = {'shared': shared, 'writers': writers}
    w("(* shared mutable state of the package: (module, name, kind) *)")
    w("Definition shared_state : list (list N * list N * list N) := %s." % clist(
        "(%s, %s, %s)" % (cstr(m), cstr(n), cstr(k)) for m, n, k in shared))
    w("Definition shared_writers : list (list N * list N * list N * list N) := %s." % clist(
        "(%s, %s, %s, %s)" % (cstr(m), cstr(f), cstr(n), cstr(h)) for m, f, n, h in writers))

    text = "\n".join(out) + "\n"
    old = open(out_path).read() if os.path.exists(out_path) else None
    if old != text:
        tmp = out_path + '.tmp'
        open(tmp, 'w').write(text)
        os.replace(tmp, out_path)
        status['changed'] = True
    else:
        status['changed'] = False
    json.dump(status, open(status_path, 'w'), indent=1)


if __name__ == '__main__':
    main()
