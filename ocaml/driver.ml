(* driver.ml — line protocol around the extracted model.
   stdin : one JSON array per line  ["op", arg, ...]
   stdout: one JSON value per line  {"ok": v} | {"err": "Name"}
   Strings are arrays of code points; integers may be arbitrarily large. *)
open Model
type string = String.t

type json = JInt of string | JArr of json list | JNull | JBool of bool | JStr of string

(* ---------- minimal JSON reader ---------- *)
let parse (s : string) : json =
  let n = String.length s in
  let i = ref 0 in
  let peek () = if !i < n then s.[!i] else '\000' in
  let rec ws () = if !i < n && (s.[!i] = ' ' || s.[!i] = '\t' || s.[!i] = '\n' || s.[!i] = '\r') then (incr i; ws ()) in
  let rec value () =
    ws ();
    match peek () with
    | '[' -> incr i; ws ();
        if peek () = ']' then (incr i; JArr [])
        else begin
          let items = ref [] in
          let continue = ref true in
          while !continue do
            items := value () :: !items; ws ();
            (match peek () with
             | ',' -> incr i
             | ']' -> incr i; continue := false
             | _ -> failwith "json: expected , or ]")
          done;
          JArr (List.rev !items)
        end
    | '"' -> incr i;
        let b = Buffer.create 16 in
        while peek () <> '"' do
          if peek () = '\\' then (incr i; Buffer.add_char b (peek ())) else Buffer.add_char b (peek ());
          incr i
        done; incr i; JStr (Buffer.contents b)
    | 'n' -> i := !i + 4; JNull
    | 't' -> i := !i + 4; JBool true
    | 'f' -> i := !i + 5; JBool false
    | _ ->
        let st = !i in
        if peek () = '-' then incr i;
        while !i < n && s.[!i] >= '0' && s.[!i] <= '9' do incr i done;
        if !i = st then failwith ("json: unexpected char at " ^ string_of_int st);
        JInt (String.sub s st (!i - st))
  in value ()

(* ---------- numbers ---------- *)
let rec nat_of_int n = if n <= 0 then O else S (nat_of_int (n - 1))
let rec int_of_nat = function O -> 0 | S k -> 1 + int_of_nat k
let rec pos_of_int n = if n = 1 then XH else if n land 1 = 0 then XO (pos_of_int (n lsr 1)) else XI (pos_of_int (n lsr 1))
let n_of_int n = if n = 0 then N0 else Npos (pos_of_int n)
let z_of_int n = if n = 0 then Z0 else if n > 0 then Zpos (pos_of_int n) else Zneg (pos_of_int (-n))
let ten = n_of_int 10
let n_of_decimal (s : string) : n =
  if String.length s <= 17 then n_of_int (int_of_string s)
  else begin
    let acc = ref N0 in
    String.iter (fun c -> acc := N.add (N.mul !acc ten) (n_of_int (Char.code c - 48))) s; !acc
  end
let z_of_decimal (s : string) : z =
  if String.length s > 0 && s.[0] = '-' then Z.opp (Z.of_N (n_of_decimal (String.sub s 1 (String.length s - 1))))
  else Z.of_N (n_of_decimal s)
(* printing: positive -> decimal string, via repeated halving in OCaml ints when small *)
let rec int_of_pos = function XH -> 1 | XO p -> 2 * int_of_pos p | XI p -> 2 * int_of_pos p + 1
let rec pos_bits = function XH -> 1 | XO p | XI p -> 1 + pos_bits p
(* big decimal printing: base 10^9 limbs *)
let string_of_pos (p : positive) : string =
  if pos_bits p <= 60 then string_of_int (int_of_pos p)
  else begin
    (* collect bits msb first, then do decimal doubling on a limb array *)
    let rec bits acc = function XH -> 1 :: acc | XO q -> bits (0 :: acc) q | XI q -> bits (1 :: acc) q in
    let bs = bits [] p in
    let limbs = ref [0] in (* little endian base 1e9 *)
    List.iter (fun b ->
      let carry = ref b in
      limbs := List.map (fun l -> let v = 2 * l + !carry in carry := v / 1_000_000_000; v mod 1_000_000_000) !limbs;
      if !carry > 0 then limbs := !limbs @ [!carry]) bs;
    match List.rev !limbs with
    | [] -> "0"
    | hd :: tl -> String.concat "" (string_of_int hd :: List.map (Printf.sprintf "%09d") tl)
  end
let string_of_n = function N0 -> "0" | Npos p -> string_of_pos p
let string_of_z = function Z0 -> "0" | Zpos p -> string_of_pos p | Zneg p -> "-" ^ string_of_pos p

(* ---------- decoding arguments ---------- *)
let j_int = function JInt s -> int_of_string s | _ -> failwith "int expected"
let j_nat j = nat_of_int (j_int j)
let j_n = function JInt s -> n_of_decimal s | _ -> failwith "N expected"
let j_z = function JInt s -> z_of_decimal s | JBool true -> z_of_int 1 | JBool false -> Z0 | _ -> failwith "Z expected"
let j_bool = function JBool b -> b | _ -> failwith "bool expected"
let j_list f = function JArr l -> List.map f l | _ -> failwith "list expected"
let j_str j = j_list j_n j
let j_opt f = function JNull -> None | j -> Some (f j)
let j_pair f g = function JArr [a; b] -> (f a, g b) | _ -> failwith "pair expected"
let j_table j = j_list (j_pair j_str j_z) j

(* ---------- encoding results ---------- *)
let b = Buffer.create 65536
let add = Buffer.add_string b
let p_list f l = add "["; List.iteri (fun i x -> if i > 0 then add ","; f x) l; add "]"
let p_n x = add (string_of_n x)
let p_z x = add (string_of_z x)
let p_nat x = add (string_of_int (int_of_nat x))
let p_str s = p_list p_n s
let p_bool x = add (if x then "true" else "false")
let p_opt f = function None -> add "null" | Some x -> f x
let p_pair f g (x, y) = add "["; f x; add ","; g y; add "]"
let exn_name = function
  | DecoderError -> "DecoderError" | EncoderError -> "EncoderError"
  | SMILESParserError -> "SMILESParserError" | ValueError -> "ValueError"
  | KeyError -> "KeyError" | IndexError -> "IndexError" | TypeError -> "TypeError"
  | AssertionError -> "AssertionError" | AttributeError -> "AttributeError"
  | ZeroDivisionError -> "ZeroDivisionError" | RecursionError -> "RecursionError"
  | StopIteration -> "StopIteration"
  | OutOfFuel -> "OutOfFuel"
let p_res f = function
  | Ok v -> add "{\"ok\":"; f v; add "}"
  | Err e -> add "{\"err\":\""; add (exn_name e); add "\"}"
let p_attr (i, t) = add "["; p_nat i; add ","; p_str t; add "]"
let p_amap (m : amap) = add "["; p_z m.am_index; add ","; p_str m.am_token; add ","; p_opt (p_list p_attr) m.am_attr; add "]"
let p_atom (a : atom) =
  add "["; p_str a.a_element; add ","; p_bool a.a_aromatic; add ","; p_opt p_n a.a_isotope; add ",";
  p_opt p_str a.a_chirality; add ","; p_opt p_n a.a_hcount; add ","; p_z a.a_charge; add "]"

(* ---------- encoder-side dumps ---------- *)
let p_attrs = p_opt (p_list p_attr)
let p_ebond_dump ((((dst, o2), st), ring), at) =
  add "["; p_nat dst; add ","; p_z o2; add ","; p_opt p_n st; add ","; p_bool ring; add ","; p_attrs at; add "]"
let p_mol_dump (d : mol_dump) =
  add "{\"atoms\":"; p_list (fun (a, at) -> add "["; p_atom a; add ","; p_attrs at; add "]") d.d_atoms;
  add ",\"adj\":"; p_list (p_list (p_opt p_ebond_dump)) d.d_adj;
  add ",\"roots\":"; p_list p_nat d.d_roots;
  add ",\"counts2\":"; p_list p_z d.d_counts2;
  add ",\"ringflags\":"; p_list p_bool d.d_ringflags;
  add ",\"ds\":"; p_list (p_pair p_nat (p_list p_nat)) d.d_ds;
  add "}"
let j_psop = function
  | JArr [JInt "0"; k] -> OpAdd (j_nat k)
  | JArr [JInt "1"; _] -> OpPop
  | JArr [JInt "2"; k] -> OpDiscard (j_nat k)
  | _ -> failwith "set op expected"

let p_satom (a : satom) =
  add "["; p_str a.sa_elem; add ","; p_bool a.sa_arom; add ","; p_opt p_n a.sa_iso; add ",";
  p_opt p_str a.sa_chi; add ","; p_opt p_n a.sa_h; add ","; p_z a.sa_charge; add "]"
let p_slot (s : nslot) =
  add "["; p_nat s.sl_to; add ","; p_z s.sl_order2; add ","; p_opt p_n s.sl_mark; add ","; p_bool s.sl_ring; add "]"
let p_smol (m : smol) = add "["; p_list p_satom m.sm_atoms; add ","; p_list (p_list p_slot) m.sm_nbrs; add "]"

(* ---------- histories ---------- *)
let j_key = function JNull -> KOther | j -> KStr (j_str j)
let j_val = function JInt s -> VInt (z_of_decimal s) | JBool true -> VInt (z_of_int 1) | JBool false -> VInt Z0 | _ -> VOther
let j_dict j = j_list (j_pair j_key j_val) j
let j_mut = function
  | JArr [JStr "setitem"; k; v] -> MSetItem (j_str k, j_val v)
  | JArr [JStr "del"; k] -> MDelItem (j_str k)
  | JArr [JStr "add"; x] -> MAdd (j_str x)
  | JArr [JStr "clear"] -> MClear
  | _ -> failwith "mutation expected"
let j_op = function
  | JArr [JStr "new"; d] -> OpNewDict (j_dict d)
  | JArr [JStr "set"; JArr [JStr "name"; n]] -> OpSet (RName (j_str n))
  | JArr [JStr "set"; JArr [JStr "held"; k]] -> OpSet (RHeld (j_nat k))
  | JArr [JStr "set"; JArr [JStr "junk"]] -> OpSet RJunk
  | JArr [JStr "get"] -> OpGet
  | JArr [JStr "preset"; n] -> OpGetPreset (j_str n)
  | JArr [JStr "alpha"] -> OpGetAlphabet
  | JArr [JStr "mut"; k; m] -> OpMutate (j_nat k, j_mut m)
  | JArr [JStr "dec"; x; c; a] -> OpDecode (j_str x, j_bool c, j_bool a)
  | JArr [JStr "enc"; x; c; a] -> OpEncode (j_str x, j_bool c, j_bool a)
  | _ -> failwith "op expected"
let p_key = function KStr s -> p_str s | KOther -> add "null"
let p_val = function VInt z -> p_z z | VOther -> add "null"
let p_obs = function
  | ObsNone -> add "null"
  | ObsErr e -> add "{\"err\":\""; add (exn_name e); add "\"}"
  | ObsDict d -> add "{\"dict\":"; p_list (p_pair p_key p_val) d; add "}"
  | ObsSet s -> add "{\"set\":"; p_list p_str s; add "}"
  | ObsTrans r -> add "{\"trans\":"; p_res (p_pair p_str (p_list p_amap)) r; add "}"

let handle (req : json) : unit =
  match req with
  | JArr (JStr op :: args) -> begin
    match op, args with
    | "dec", [t; s; compat; attr] ->
        p_res (p_pair p_str (p_list p_amap)) (decoder (j_table t) (j_str s) (j_bool compat) (j_bool attr))
    | "split", [s] -> p_pair (p_list p_str) p_bool (split_selfies (j_str s))
    | "len", [s] -> p_nat (len_selfies (j_str s))
    | "alphabet", [ss] -> p_res (p_list p_str) (get_alphabet_from_selfies (j_list j_str ss))
    | "idx_from", [syms] -> p_n (get_index_from_selfies (j_list (j_opt j_str) syms))
    | "spec_idx", [syms] -> p_n (doc_value (List.map doc_digit (j_list (j_opt j_str) syms)))
    | "wf_parse", [s] -> p_opt (p_list (p_pair p_str p_bool)) (wf_parse (j_str s))
    | "wf_tokens", [l] -> p_list p_str (tokens (j_list (j_pair j_str j_bool) l))
    | "wf_render", [l] -> p_str (render (j_list (j_pair j_str j_bool) l))
    | "s2e", [s; stoi; pad; et] ->
        p_res (function
          | Label l -> add "[\"label\","; p_list p_z l; add "]"
          | OneHot m -> add "[\"one_hot\","; p_list (p_list p_z) m; add "]"
          | Both (l, m) -> add "[\"both\","; p_list p_z l; add ","; p_list (p_list p_z) m; add "]")
          (selfies_to_encoding (j_str s) (j_list (j_pair j_str j_z) stoi) (j_z pad) (j_str et))
    | "e2s", [kind; e; itos; et] ->
        let inp = (match kind with JStr "label" -> InLabel (j_list j_z e) | _ -> InOneHot (j_list (j_list j_z) e)) in
        p_res p_str (encoding_to_selfies inp (j_list (j_pair j_z j_str) itos) (j_str et))
    | "b2f", [batch; stoi; pad] ->
        p_res (p_list (p_list p_z)) (batch_selfies_to_flat_hot (j_list j_str batch) (j_list (j_pair j_str j_z) stoi) (j_z pad))
    | "f2b", [batch; itos] ->
        p_res (p_list p_str) (batch_flat_hot_to_selfies (j_list (j_list j_z) batch) (j_list (j_pair j_z j_str) itos))
    | "valid", [t; s] -> p_bool (valid_smiles_under (j_table t) (j_str s))
    | "read", [s] -> p_opt p_smol (read_smiles (j_str s))
    | "geval", [t; toks] -> p_res p_smol (grammar_eval (j_table t) (j_list j_str toks))
    | "c02", [t; toks; out] ->
        (match grammar_eval (j_table t) (j_list j_str toks) with
         | Err e -> add "{\"err\":\""; add (exn_name e); add "\"}"
         | Ok m -> (match read_smiles (j_str out) with
                    | None -> add "{\"ok\":false,\"why\":\"unreadable\"}"
                    | Some m2 -> add "{\"ok\":"; p_bool (smol_eqb m m2); add "}"))
    | "elements", [] -> p_list p_str elements
    | "hist", [ops] -> p_list p_obs (snd (run init_world (j_list j_op ops)))
    | "alphabet_of", [t] -> p_list p_str (compute_alphabet (j_table t))
    | "valid_key", [k] -> p_bool (valid_key (j_str k))
    | "rt", [t; a; b] ->
        (match read_smiles (j_str a), read_smiles (j_str b) with
         | Some ma, Some mb ->
             add "{\"read_in\":true,\"read_out\":true,\"same_molecule\":"; p_bool (same_molecule ma mb);
             add ",\"same_stereo\":"; p_bool (same_stereo ma mb);
             add ",\"kekule_ok\":"; p_bool (kekule_ok ma mb);
             add ",\"out_kekule_form\":"; p_bool (kekule_form mb);
             add ",\"violates_out\":"; p_bool (violates (j_table t) mb); add "}"
         | ra, rb -> add "{\"read_in\":"; p_bool (ra <> None); add ",\"read_out\":"; p_bool (rb <> None); add "}")
    | "kek", [a] ->
        (match read_smiles (j_str a) with
         | Some m -> add "{\"readable\":true,\"all_standard\":"; p_bool (all_standard m);
                     add ",\"kekule_form\":"; p_bool (kekule_form m);
                     add ",\"has_kekule\":"; p_bool (has_kekule_structure m); add "}"
         | None -> add "{\"readable\":false}")
    | "haspm", [g] -> p_bool (graph_has_pm (j_list (j_list j_nat) g))
    | "ispm", [g; m] -> p_bool (is_perfect_matching (j_list (j_list j_nat) g) (j_list (j_opt j_nat) m))
    | "symok", [t; syms] -> p_list p_bool (List.map (symbol_in_grammar (j_table t)) (j_list j_str syms))
    | "idx_to", [n] -> p_res (p_list p_str) (get_selfies_from_index (j_z n))
    | "modernize", [s] -> p_res p_str (modernize_symbol (j_str s))
    | "atom_sym", [t; s] ->
        p_res (p_opt (fun (((o, st), a), cap) -> add "["; p_z o; add ","; p_opt p_n st; add ","; p_atom a; add ","; p_z cap; add "]"))
          (process_atom_symbol (j_table t) (j_str s))
    | "smiles_atom", [s] -> p_res (p_opt p_atom) (smiles_to_atom (j_str s))
    | "nas", [a; c; s] -> p_pair p_z (p_opt p_z) (next_atom_state (j_z a) (j_z c) (j_z s))
    | "nbs", [a; s] -> p_pair p_z p_z (next_branch_state (j_z a) (j_z s))
    | "nrs", [a; s] -> p_pair p_z (p_opt p_z) (next_ring_state (j_z a) (j_z s))
    | "enc", [t; s; strict; attr] ->
        p_res (p_pair p_str (p_list p_amap)) (encoder (j_table t) (j_str s) (j_bool strict) (j_bool attr))
    | "enc_hyp", [t; s; attr; out] ->
        p_pair p_bool p_bool (enc_hyp (j_table t) (j_str s) (j_bool attr) (j_str out))
    | "pm", [g] ->
        p_res (p_opt (p_list (p_opt p_nat))) (find_perfect_matching (j_list (j_list j_nat) g))
    | "greedy", [g] ->
        p_res (p_list (p_opt p_nat)) (greedy_matching (j_list (j_list j_nat) g))
    | "parse_kek", [s; attr] ->
        p_res (fun (d, k) -> add "["; p_mol_dump d; add ","; p_res (p_opt p_mol_dump) k; add "]")
          (parse_kekulize (j_str s) (j_bool attr))
    | "pruned_ds", [s] ->
        p_res (p_list (p_list p_nat))
          (match smiles_to_mol (j_str s) false with Ok m -> pruned_ds m | Err e -> Err e)
    | "tok", [s] ->
        p_res (p_list (fun (t : token) ->
                 add "["; p_opt p_n t.t_bond; add ","; p_nat t.t_start; add ",";
                 add (match t.t_type with TAtom -> "0" | TBranch -> "1" | TRing -> "2" | TDot -> "3");
                 add ","; p_str t.t_text; add "]"))
          (tokenize_smiles (j_str s))
    | "pyset", [ops] ->
        p_res (fun (evs, (s : pyset)) ->
                 add "["; p_list (fun ((k, kerr), order) ->
                   add "["; p_opt p_nat k; add ","; p_bool kerr; add ","; p_list p_nat order; add "]") evs;
                 add ","; p_nat s.ps_mask; add ","; p_nat s.ps_fill; add ","; p_nat s.ps_used;
                 add ","; p_nat s.ps_finger; add "]")
          (ps_run ps_empty (j_list j_psop ops))
    | "split", [s] -> p_pair (p_list p_str) p_bool (split_selfies (j_str s))
    | "len", [s] -> p_nat (len_selfies (j_str s))
    | "alphabet", [ss] -> p_res (p_list p_str) (get_alphabet_from_selfies (j_list j_str ss))
    | "idx_from", [syms] -> p_n (get_index_from_selfies (j_list (j_opt j_str) syms))
    | "spec_idx", [syms] -> p_n (doc_value (List.map doc_digit (j_list (j_opt j_str) syms)))
    | "idx_to", [n] -> p_res (p_list p_str) (get_selfies_from_index (j_z n))
    | "modernize", [s] -> p_res p_str (modernize_symbol (j_str s))
    | "atom_sym", [t; s] ->
        p_res (p_opt (fun (((o, st), a), cap) -> add "["; p_z o; add ","; p_opt p_n st; add ","; p_atom a; add ","; p_z cap; add "]"))
          (process_atom_symbol (j_table t) (j_str s))
    | "smiles_atom", [s] -> p_res (p_opt p_atom) (smiles_to_atom (j_str s))
    | "nas", [a; c; s] -> p_pair p_z (p_opt p_z) (next_atom_state (j_z a) (j_z c) (j_z s))
    | "nbs", [a; s] -> p_pair p_z p_z (next_branch_state (j_z a) (j_z s))
    | "nrs", [a; s] -> p_pair p_z (p_opt p_z) (next_ring_state (j_z a) (j_z s))
    | _ -> failwith ("unknown op " ^ op)
    end
  | _ -> failwith "request must be [\"op\", ...]"

let () =
  try
    while true do
      let line = input_line stdin in
      Buffer.clear b;
      (try handle (parse line)
       with Failure m -> Buffer.clear b; add "{\"fail\":\""; add (String.escaped m); add "\"}"
          | Stack_overflow -> Buffer.clear b; add "{\"fail\":\"stack_overflow\"}");
      print_string (Buffer.contents b); print_newline ()
    done
  with End_of_file -> ()
